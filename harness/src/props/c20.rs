//! C20 - transpose, carry-less multiply and AES-based hash/PRG match their definitions.
use serde_json::json;
use std::process::Command;

use crate::report::Report;

fn sanitizer_run(rep: &mut Report, name: &str, cmd: &mut Command, timeout_note: &str) {
    let start = std::time::Instant::now();
    match cmd.output() {
        Err(e) => rep.inconclusive(&format!("{name}: cannot start ({e})")),
        Ok(out) => {
            let so = String::from_utf8_lossy(&out.stdout).to_string();
            let se = String::from_utf8_lossy(&out.stderr).to_string();
            let summary = so.lines().find(|l| l.starts_with("PRIM ")).unwrap_or("").to_string();
            rep.set(&format!("{name}_summary"), json!(summary));
            rep.set(&format!("{name}_wall_s"), json!(start.elapsed().as_secs_f64()));
            let mismatches: Vec<&str> = so.lines().filter(|l| l.starts_with("MISMATCH ")).collect();
            let ub = se.contains("Undefined Behavior") || se.contains("ERROR: AddressSanitizer") || se.contains("Invalid read") || se.contains("Invalid write") || se.contains("uninitialised value");
            if ub {
                let first = se.lines().find(|l| l.contains("Undefined Behavior") || l.contains("AddressSanitizer") || l.contains("Invalid") || l.contains("uninitialised")).unwrap_or("").trim().to_string();
                let kind = first.split(':').take(3).collect::<Vec<_>>().join(":");
                rep.violation(format!("{name} reports an error in the primitives workload ({kind})"), json!({"tool": name, "stderr_tail": se.lines().rev().take(40).collect::<Vec<_>>().into_iter().rev().collect::<Vec<_>>()}));
            } else if !mismatches.is_empty() {
                for m in mismatches {
                    rep.violation(format!("{} [under {name}]", m.trim_start_matches("MISMATCH ")), json!({"tool": name}));
                }
            } else if !out.status.success() || summary.is_empty() {
                rep.inconclusive(&format!("{name}: did not complete ({timeout_note}; status {:?}): {}", out.status.code(), se.lines().rev().take(3).collect::<Vec<_>>().join(" | ")));
            } else {
                rep.add("sanitizer_runs_clean", 1);
            }
        }
    }
}

pub fn run(tier: &str, seed: u64) -> i32 {
    let thorough = tier == "thorough";
    let mut rep = Report::new("C20", tier, seed, "exploration");
    rep.rule = "transpose: 128 x c for c in 16..4096 step 8 (sampled in quick, all in thorough), every buffer alignment 0..15, taller matrices and random rows x cols, dispatching and portable implementation against a bit-by-bit transpose; clmul: all 128x128 basis pairs, all-ones, sparse / dense / half / random operands, dispatching and scalar against a schoolbook product; cr / tccr hash of random blocks with tweak 0, tweak = x, counter and random tweaks against pi(x)^x and pi(pi(x)^t)^pi(x) computed with a table-free AES-128 of the harness (FIPS-197 self test) and the aes crate; generator: every request length 0..1100 in one call on a fresh generator against the AES-128-CTR keystream. distinct = equivalence classes (shape residues mod 128 / 512 and alignment, operand class, tweak class, request length residues); every comparison is non-trivial".into();
    rep.assumptions = vec!["counter mode convention: little-endian 128-bit counter starting at 0, key = seed".into(), "Miri interprets the AVX2 / PCLMUL intrinsics (independent implementation of their semantics)".into()];
    let t = prim::run_all(seed, if thorough { 2 } else { 1 });
    rep.evaluations = t.checks;
    for d in &t.distinct {
        rep.distinct.insert(d.clone());
    }
    for m in &t.mismatches {
        rep.violation(m.clone(), json!({"seed": seed}));
    }
    for s in &t.samples {
        rep.sample(json!(s));
    }
    rep.sample(json!({"clmul": "x^5 * x^7 and 16383 other basis pairs, 4000+ random operands", "rng": "lengths 0..=1100"}));
    // sanitizers on the same comparison program (small shapes): Miri in both tiers, memcheck and ASan in thorough
    let prim_dir = crate::report::verif_root().join("prim");
    let miri_scale = "0";
    if std::env::var("PV_NO_MIRI").is_err() {
        let mut c = Command::new("cargo");
        c.current_dir(&prim_dir)
            .env("CARGO_NET_OFFLINE", "true")
            .env("MIRIFLAGS", "-Zmiri-disable-isolation")
            .args(["+nightly", "miri", "run", "--offline", "--target-dir", "target-miri", "--", &seed.to_string(), miri_scale]);
        sanitizer_run(&mut rep, "miri", &mut c, "Miri is slow");
    }
    if thorough {
        // valgrind memcheck on the plain release binary
        let build = Command::new("cargo").current_dir(&prim_dir).env("CARGO_NET_OFFLINE", "true").args(["build", "--release", "--offline"]).output();
        if build.map(|o| o.status.success()).unwrap_or(false) {
            let mut c = Command::new("valgrind");
            c.current_dir(&prim_dir).args(["--error-exitcode=9", "--quiet", "target/release/prim-run", &seed.to_string(), "0"]);
            sanitizer_run(&mut rep, "memcheck", &mut c, "valgrind");
        } else {
            rep.inconclusive("memcheck: prim does not build");
        }
        let mut c = Command::new("cargo");
        c.current_dir(&prim_dir)
            .env("CARGO_NET_OFFLINE", "true")
            .env("RUSTFLAGS", "-Zsanitizer=address -Cforce-frame-pointers=yes")
            .env("ASAN_OPTIONS", "halt_on_error=1:detect_leaks=0")
            .args(["+nightly", "run", "--release", "--offline", "--target", "x86_64-unknown-linux-gnu", "--target-dir", "target-asan", "--", &seed.to_string(), "1"]);
        sanitizer_run(&mut rep, "asan", &mut c, "ASan build");
    }
    rep.finish()
}
