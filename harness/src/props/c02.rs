//! C02 - a malicious peer can never make an honest party accept a wrong output.
use serde_json::json;

use crate::adv::{FaultAction, FaultPlan, Target, What};
use crate::codec::{self, Density, MutOp};
use crate::faults::{self, FaultCase, World};
use crate::report::Report;
use crate::shard;

pub const TAP_SITES: &[&str] = &["rng.multi.seed", "rng.pair.seed", "fashare.dm", "dvalue.own", "beaver.own_de", "garble.row_bit"];

fn early_label(l: &str) -> bool {
    l.starts_with("CO_OT") || l.starts_with("ALSZ") || l.starts_with("KOS") || l.starts_with("RNG") || l.starts_with("broadcast RNG")
}

pub fn build(tier: &str, seed: u64) -> World {
    let thorough = tier == "thorough";
    let mut w = World::new(tier, seed);
    let reps = if thorough { 6 } else { 3 };
    let mut cases = vec![];
    for (ci, cfg) in w.cfgs.iter().enumerate() {
        let n = cfg.n();
        if cfg.name.ends_with("-big") {
            continue;
        }
        if !thorough && n == 3 && cfg.name != "n3-E1-Oall" {
            continue;
        }
        for c in 0..n {
            let msgs: Vec<_> = w.pilots[ci].msgs.iter().filter(|m| m.from == c).collect();
            for (mi, m) in msgs.iter().enumerate() {
                let Some(tree) = &m.tree else { continue };
                let early = early_label(&m.label);
                if !thorough && early && m.k > 0 {
                    continue;
                }
                // n = 3: messages to the second receiver only every other label in quick
                let online = crate::adv::is_online_label(&m.label);
                if !thorough && n == 3 && (mi + c + seed as usize) % 3 != 0 && !online {
                    continue;
                }
                let density = if thorough { Density::Full } else { Density::Sampled };
                let muts = codec::enumerate(tree, density);
                // correlated alterations: the same leaf mutation at two elements of the outer vector
                // (first+second, first+last), and two elements swapped
                let mut multi: Vec<(String, What)> = vec![];
                {
                    let mut groups: std::collections::BTreeMap<(Vec<usize>, String), Vec<usize>> = Default::default();
                    for tm in &muts {
                        if tm.path.len() >= 2 && matches!(tm.op, MutOp::FlipBit) {
                            groups.entry((tm.path[1..].to_vec(), format!("{:?}", tm.op))).or_default().push(tm.path[0]);
                        }
                    }
                    for ((rel, _), mut firsts) in groups {
                        firsts.sort();
                        firsts.dedup();
                        if firsts.len() < 2 { continue; }
                        let mut pairs = vec![(firsts[0], firsts[1])];
                        if firsts.len() > 2 { pairs.push((firsts[0], firsts[firsts.len() - 1])); }
                        for (a, b) in pairs {
                            let mk = |i: usize| { let mut p = vec![i]; p.extend_from_slice(&rel); codec::TreeMut { path: p, op: MutOp::FlipBit } };
                            multi.push((format!("tree:FlipBit-at-two-elements@depth{}", rel.len() + 1), What::TreeMulti(vec![mk(a), mk(b)])));
                        }
                        if !early {
                            multi.push(("tree:SwapElems".to_string(), What::Tree(codec::TreeMut { path: vec![], op: MutOp::SwapElems(firsts[0], firsts[firsts.len() - 1]) })));
                        }
                    }
                    multi.dedup_by(|a, b| a.0 == b.0 && a.1 == b.1);
                }
                let reps_multi = if thorough || crate::adv::is_online_label(&m.label) { reps } else { 1 };
                for (class, what) in multi {
                    if early && !thorough { continue; }
                    for r in 0..reps_multi {
                        let plan = FaultPlan {
                            corrupt: c,
                            actions: vec![FaultAction { target: Target { from: c, to: Some(m.to), label: m.label.clone(), k: Some(m.k) }, what: what.clone() }],
                            crash: None,
                            seed: seed ^ ((ci as u64) << 40) ^ ((c as u64) << 32) ^ ((mi as u64) << 12) ^ 0x800 ^ r as u64,
                        };
                        let mut fc = FaultCase::new(ci, plan, format!("{class}:single"), m.label.clone());
                        fc.rep = r;
                        cases.push(fc);
                    }
                }
                let mut seen = std::collections::BTreeSet::new();
                for tm in muts {
                    if matches!(tm.op, MutOp::Randomize) && !thorough {
                        continue;
                    }
                    if early && !thorough && !matches!(tm.op, MutOp::FlipBit | MutOp::PopLast | MutOp::SomeToNone) {
                        continue;
                    }
                    let posc = tm.path.iter().map(|i| if *i == 0 { 'f' } else { 'l' }).collect::<String>();
                    let key = format!("{}:{}", tm.describe(), posc);
                    if !thorough && !seen.insert(key) {
                        continue;
                    }
                    let class = format!("tree:{}", tm.describe());
                    let mut variants = vec![(Some(m.to), Some(m.k), "single")];
                    if n == 3 && m.to == (0..n).find(|p| *p != c).unwrap_or(0) {
                        variants.push((None, Some(m.k), "all-recipients"));
                    }
                    if m.k == 0 && msgs.iter().any(|x| x.label == m.label && x.to == m.to && x.k > 0) && (thorough || !early) {
                        variants.push((Some(m.to), None, "persistent"));
                    }
                    for (to, k, vname) in variants {
                        let reps_here = if thorough || online { reps } else { 1 };
                        for r in 0..reps_here {
                            let plan = FaultPlan {
                                corrupt: c,
                                actions: vec![FaultAction { target: Target { from: c, to, label: m.label.clone(), k }, what: What::Tree(tm.clone()) }],
                                crash: None,
                                seed: seed ^ ((ci as u64) << 40) ^ ((c as u64) << 32) ^ ((mi as u64) << 12) ^ r as u64,
                            };
                            let mut fc = FaultCase::new(ci, plan, format!("{class}:{vname}"), m.label.clone());
                            fc.rep = r;
                            cases.push(fc);
                        }
                    }
                }
            }
            // consistent lies through taps
            for site in TAP_SITES {
                for index in [usize::MAX, 0, 1] {
                    for r in 0..reps {
                        let plan = FaultPlan { corrupt: c, actions: vec![], crash: None, seed: seed ^ r as u64 };
                        let mut fc = FaultCase::new(ci, plan, format!("tap:{site}:{}", if index == usize::MAX { "all".to_string() } else { index.to_string() }), format!("tap:{site}"));
                        fc.tap = Some((site.to_string(), index));
                        fc.rep = r;
                        cases.push(fc);
                    }
                }
            }
        }
    }
    w.cases = cases;
    w
}

pub fn child(tier: &str, seed: u64, a: shard::ShardArgs) {
    build(tier, seed).child(a);
}

pub fn run(tier: &str, seed: u64) -> i32 {
    let mut rep = Report::new("C02", tier, seed, "fault_enumeration");
    rep.rule = "one corrupted party (each party, as evaluator and as garbler, n in {2,3}); every message it sends is altered by every tree-mutation class at sampled positions (single recipient, all recipients, persistent over batches) or it lies consistently through a tap; every case repeated with fresh coins. Oracle: honest Ok values must lie in {f(x_honest, x') : x'} (exhaustive over the corrupted party's input bits) and agree on one x'. distinct = (configuration, corrupted party, label, mutation class); non-trivial = the deviation took effect and the admissible set is a strict subset of all bit vectors".into();
    rep.assumptions = vec!["clear-text evaluator of the harness".into(), "panics / hangs of honest parties are judged by C08, not here".into()];
    let w = build(tier, seed);
    let mut hist = std::collections::BTreeMap::new();
    let mut cnt = 0u64;
    w.drive("C02", tier, seed, &mut rep, |rep, fc, cfg, v| {
        let via = format!("label={} mut={}", fc.label, fc.class);
        let eff = faults::effective(fc, v);
        if eff && v["admissible_strict"].as_bool().unwrap_or(false) {
            rep.distinct.insert(format!("{}|c{}|{}|{}", cfg.name, fc.plan.corrupt, fc.label, fc.class));
        }
        if fc.tap.is_some() && v["tap_fired"].as_u64().unwrap_or(0) == 0 && fc.class.ends_with(":all") && !(fc.class.contains("garble.row_bit") && v["corrupt_role"] == "evaluator") && !(fc.class.contains("rng.multi") && false) {
            rep.harness_error(format!("tap never fired: {} in {}", fc.class, cfg.name));
        }
        for h in faults::honest_of(v) {
            let oc = v["outcomes"][h].as_str().unwrap_or("?");
            *hist.entry(oc.split('(').next().unwrap_or("?").split('@').next().unwrap_or("?").to_string()).or_insert(0u64) += 1;
        }
        let wrong = v["wrong_output"].as_array().map(|a| a.len()).unwrap_or(0);
        if wrong > 0 {
            rep.violation(format!("honest party accepted a wrong output via {via}"), v.clone());
        } else if !v["agree"].as_bool().unwrap_or(true) {
            rep.violation(format!("honest parties accepted outputs that no single input substitution explains via {via}"), v.clone());
        } else {
            cnt += 1;
            if eff && cnt % 211 == 1 {
                rep.sample(v.clone());
            }
        }
    });
    rep.set("honest_outcome_histogram", json!(hist));
    rep.finish()
}
