//! Sharded sub-process runner: cases run in single-threaded child processes so that an abort
//! (allocation failure, stack overflow) is attributed to the journalled case instead of killing
//! the whole check, and so that per-process observations (/proc/self/task) are meaningful.
use std::io::{BufRead, BufReader, Write};
use std::process::{Command, Stdio};
use std::sync::Mutex;
use std::sync::atomic::{AtomicUsize, Ordering};

use serde_json::Value;

pub enum CaseResult {
    Done(Value),
    /// the child died while running this case: (description, stderr tail)
    Aborted(String, String),
}

/// Child side: runs cases `idx = shard + k * of`, `idx >= from`.
pub fn child_loop(n_cases: usize, shard: usize, of: usize, from: usize, mut f: impl FnMut(usize) -> Value) {
    let stdout = std::io::stdout();
    let mut idx = shard;
    while idx < n_cases {
        if idx >= from {
            {
                let mut o = stdout.lock();
                let _ = writeln!(o, "B {idx}");
                let _ = o.flush();
            }
            let v = f(idx);
            let mut o = stdout.lock();
            let _ = writeln!(o, "R {idx} {}", serde_json::to_string(&v).unwrap_or_else(|_| "null".into()));
            let _ = o.flush();
        }
        idx += of;
    }
}

/// Parent side: spawns `shards` children of the current executable with
/// `<prop> shard <tier> --seed <seed> --shard i/of --from j` and collects results in case order.
pub fn run_parent(prop: &str, tier: &str, seed: u64, n_cases: usize, shards: usize, extra_env: &[(&str, String)]) -> Vec<CaseResult> {
    run_parent_with_limit(prop, tier, seed, n_cases, shards, extra_env, 40.0)
}

/// `default_cpu_limit_s`: CPU seconds one case may burn before its child is killed (a case of C13 is a
/// whole exploration root with hundreds of executions, everywhere else one execution);
/// `PV_CASE_CPU_LIMIT_S` overrides it.
pub fn run_parent_with_limit(prop: &str, tier: &str, seed: u64, n_cases: usize, shards: usize, extra_env: &[(&str, String)], default_cpu_limit_s: f64) -> Vec<CaseResult> {
    // the running image itself (stays valid when the file on disk is replaced by a rebuild)
    let exe = std::path::PathBuf::from("/proc/self/exe");
    let results: Mutex<Vec<Option<CaseResult>>> = Mutex::new((0..n_cases).map(|_| None).collect());
    let shards = shards.max(1).min(n_cases.max(1));
    let done = AtomicUsize::new(0);
    std::thread::scope(|s| {
        for shard in 0..shards {
            let exe = &exe;
            let results = &results;
            let done = &done;
            s.spawn(move || {
                let mut from = 0usize;
                let mut respawns = 0;
                loop {
                    let mut cmd = Command::new(exe);
                    cmd.arg(prop).arg("shard").arg(tier).arg("--seed").arg(seed.to_string())
                        .arg("--shard").arg(format!("{shard}/{shards}")).arg("--from").arg(from.to_string())
                        .stdin(Stdio::null()).stdout(Stdio::piped()).stderr(Stdio::piped());
                    for (k, v) in extra_env {
                        cmd.env(k, v);
                    }
                    let mut child = match cmd.spawn() {
                        Ok(c) => c,
                        Err(e) => {
                            eprintln!("cannot spawn shard: {e}");
                            return;
                        }
                    };
                    let out = child.stdout.take().expect("stdout");
                    let mut err = child.stderr.take().expect("stderr");
                    // CPU-time watchdog (load independent): a case that burns more CPU time than
                    // `PV_CASE_CPU_LIMIT_S` (default 40 s; honest cases take well under a second) is killed
                    let pid = child.id();
                    let cur_case = std::sync::Arc::new(AtomicUsize::new(usize::MAX));
                    let stop = std::sync::Arc::new(std::sync::atomic::AtomicBool::new(false));
                    let timed_out = std::sync::Arc::new(std::sync::atomic::AtomicBool::new(false));
                    let wd = {
                        let (cur_case, stop, timed_out) = (cur_case.clone(), stop.clone(), timed_out.clone());
                        let limit: f64 = std::env::var("PV_CASE_CPU_LIMIT_S").ok().and_then(|x| x.parse().ok()).unwrap_or(default_cpu_limit_s);
                        std::thread::spawn(move || {
                            let cpu = || -> Option<f64> {
                                let st = std::fs::read_to_string(format!("/proc/{pid}/stat")).ok()?;
                                let rest = st.rsplit_once(')')?.1;
                                let f: Vec<&str> = rest.split_whitespace().collect();
                                let ut: f64 = f.get(11)?.parse().ok()?;
                                let stt: f64 = f.get(12)?.parse().ok()?;
                                Some((ut + stt) / 100.0)
                            };
                            let mut seen = usize::MAX;
                            let mut base = 0.0;
                            while !stop.load(Ordering::SeqCst) {
                                std::thread::sleep(std::time::Duration::from_millis(500));
                                let c = cur_case.load(Ordering::SeqCst);
                                let Some(now) = cpu() else { break };
                                if c != seen {
                                    seen = c;
                                    base = now;
                                } else if c != usize::MAX && now - base > limit {
                                    timed_out.store(true, Ordering::SeqCst);
                                    let _ = Command::new("kill").arg("-9").arg(pid.to_string()).status();
                                    break;
                                }
                            }
                        })
                    };
                    let err_thread = std::thread::spawn(move || {
                        let mut s = String::new();
                        let _ = std::io::Read::read_to_string(&mut err, &mut s);
                        s
                    });
                    let mut open: Option<usize> = None;
                    for line in BufReader::new(out).lines() {
                        let Ok(line) = line else { break };
                        if let Some(rest) = line.strip_prefix("B ") {
                            open = rest.trim().parse().ok();
                            cur_case.store(open.unwrap_or(usize::MAX), Ordering::SeqCst);
                        } else if let Some(rest) = line.strip_prefix("R ") {
                            let mut it = rest.splitn(2, ' ');
                            let idx: usize = it.next().and_then(|x| x.parse().ok()).unwrap_or(usize::MAX);
                            let v: Value = it.next().and_then(|j| serde_json::from_str(j).ok()).unwrap_or(Value::Null);
                            if idx < n_cases {
                                results.lock().unwrap()[idx] = Some(CaseResult::Done(v));
                                done.fetch_add(1, Ordering::SeqCst);
                            }
                            open = None;
                            cur_case.store(usize::MAX, Ordering::SeqCst);
                        }
                    }
                    let status = child.wait();
                    stop.store(true, Ordering::SeqCst);
                    let _ = wd.join();
                    let stderr = err_thread.join().unwrap_or_default();
                    let tail: String = stderr.lines().rev().take(12).collect::<Vec<_>>().into_iter().rev().collect::<Vec<_>>().join("\n");
                    match open {
                        Some(idx) => {
                            let desc = if timed_out.load(Ordering::SeqCst) { "cpu-time limit exceeded (killed)".to_string() } else { match status {
                                Ok(st) => {
                                    use std::os::unix::process::ExitStatusExt;
                                    if let Some(sig) = st.signal() { format!("signal {sig}") } else { format!("exit code {:?}", st.code()) }
                                }
                                Err(e) => format!("wait failed: {e}"),
                            } };
                            results.lock().unwrap()[idx] = Some(CaseResult::Aborted(desc, tail));
                            from = idx + 1;
                            respawns += 1;
                            if respawns > 200 {
                                return;
                            }
                        }
                        None => {
                            if let Ok(st) = status {
                                if !st.success() {
                                    eprintln!("shard {shard} ended with {st:?} outside a case: {tail}");
                                }
                            }
                            return;
                        }
                    }
                }
            });
        }
    });
    results
        .into_inner()
        .unwrap()
        .into_iter()
        .map(|r| r.unwrap_or_else(|| CaseResult::Aborted("no result (shard died outside a case)".into(), String::new())))
        .collect()
}

pub struct ShardArgs {
    pub shard: usize,
    pub of: usize,
    pub from: usize,
}

pub fn parse_shard_args(args: &[String]) -> Option<ShardArgs> {
    let mut shard = None;
    let mut from = 0;
    let mut i = 0;
    while i < args.len() {
        if args[i] == "--shard" && i + 1 < args.len() {
            let mut it = args[i + 1].split('/');
            let a: usize = it.next()?.parse().ok()?;
            let b: usize = it.next()?.parse().ok()?;
            shard = Some((a, b));
            i += 2;
        } else if args[i] == "--from" && i + 1 < args.len() {
            from = args[i + 1].parse().ok()?;
            i += 2;
        } else {
            i += 1;
        }
    }
    shard.map(|(shard, of)| ShardArgs { shard, of, from })
}
