//! Common machinery of the adversarial monitors (C02, C03, C04, C07, C08): fault circuits,
//! pilot runs, fault-case execution and the per-execution observations every oracle needs.
use polytune::garble_lang::register_circuit::Circuit;
use serde_json::{Value, json};

use crate::adv::{self, FaultPlan, PlanAdversary};
use crate::circ::{self, Builder};
use crate::codec::{self, Val};
use crate::report::bits;
use crate::runner::{Case, Exec, exec_mpc, outcome_str};
use crate::sim::{DeadSend, EvKind, Outcome, RunEnd, SchedKind};

#[derive(Clone)]
pub struct Config {
    pub name: String,
    pub circ: Circuit,
    pub inputs: Vec<Vec<bool>>,
    pub p_eval: usize,
    pub p_out: Vec<usize>,
}

impl Config {
    pub fn n(&self) -> usize {
        self.circ.input_regs.len()
    }
}

/// Fault circuit: every input feeds an AND gate and an output; some outputs depend on one
/// party's inputs only (so that the admissible output set is a strict subset).
pub fn fault_circuit(n: usize, ands_extra: usize) -> Circuit {
    let inputs = vec![2usize; n];
    let mut b = Builder::new(&inputs);
    let mut outs = vec![];
    // per-party AND of its own two inputs
    let own: Vec<_> = (0..n).map(|p| { let (x, y) = (b.input(p, 0), b.input(p, 1)); b.and(x, y) }).collect();
    // cross terms
    let mut acc = b.and(b.input(0, 0), b.input(1, 0));
    for p in 1..n {
        let x = b.xor(b.input(p, 1), b.input((p + 1) % n, 0));
        let nx = b.not(x);
        acc = b.and(acc, nx);
        acc = b.xor(acc, b.input(p, 0));
    }
    for _ in 0..ands_extra {
        let t = b.and(acc, b.input(0, 1));
        acc = b.xor(t, b.input(1, 1));
    }
    outs.push(acc);
    for o in &own {
        outs.push(*o);
    }
    // an output that is an input register of party 0 and one of party n-1
    outs.push(b.input(0, 0));
    outs.push(b.input(n - 1, 1));
    let nacc = b.not(acc);
    outs.push(nacc);
    b.finish(outs)
}

/// A circuit in which every party has one input wire that is used only as the first operand of AND
/// gates (a_p) and one that is used only as the second operand (b_p), directly and through free gates.
pub fn operand_circuit(n: usize) -> Circuit {
    let inputs = vec![2usize; n];
    let mut b = Builder::new(&inputs);
    let mut outs = vec![];
    for p in 0..n {
        let g = b.and(b.input(p, 0), b.input((p + 1) % n, 1));
        outs.push(g);
    }
    let t = b.xor(b.input(0, 0), b.input(1, 0));
    let nt = b.not(t);
    let k = b.and(nt, b.input(0, 1));
    outs.push(k);
    let u = b.xor(b.input(0, 1), b.input(n - 1, 1));
    let k2 = b.and(b.input(n - 1, 0), u);
    outs.push(k2);
    b.finish(outs)
}

/// Configurations over `operand_circuit` (used by the C03 catalogue only).
pub fn operand_configs(seed: u64) -> Vec<Config> {
    use rand::{Rng, SeedableRng};
    let mut rng = rand_chacha::ChaCha8Rng::seed_from_u64(seed ^ 0x09e7);
    let mut v = vec![];
    for (n, p_eval) in [(2usize, 0usize), (2, 1), (3, 1)] {
        let inputs: Vec<Vec<bool>> = (0..n).map(|_| vec![rng.random(), rng.random()]).collect();
        v.push(Config { name: format!("n{n}-E{p_eval}-Oall-ops"), circ: operand_circuit(n), inputs, p_eval, p_out: (0..n).collect() });
    }
    v
}

pub fn fault_configs(tier: &str, seed: u64) -> Vec<Config> {
    use rand::{Rng, SeedableRng};
    let mut rng = rand_chacha::ChaCha8Rng::seed_from_u64(seed ^ 0xfa17);
    let mut v = vec![];
    for n in [2usize, 3] {
        let c = fault_circuit(n, 0);
        for p_eval in 0..n {
            let inputs: Vec<Vec<bool>> = (0..n).map(|_| vec![rng.random(), rng.random()]).collect();
            v.push(Config { name: format!("n{n}-E{p_eval}-Oall"), circ: c.clone(), inputs, p_eval, p_out: (0..n).collect() });
        }
        // an output set that excludes the evaluator
        let inputs: Vec<Vec<bool>> = (0..n).map(|_| vec![rng.random(), rng.random()]).collect();
        v.push(Config { name: format!("n{n}-E0-O{}", n - 1), circ: c.clone(), inputs, p_eval: 0, p_out: vec![n - 1] });
    }
    {
        // 1001 AND gates: two AND-share batches (1000 + 1) and two chunks of garbled gates; used by the
        // catalogues (C03 / C04 / C07) only, the generic enumerations (C02 / C08) skip it
        let c = fault_circuit(2, 997);
        let inputs: Vec<Vec<bool>> = (0..2).map(|_| vec![rng.random(), rng.random()]).collect();
        v.push(Config { name: "n2-E0-Oall-big".into(), circ: c, inputs, p_eval: 0, p_out: vec![0, 1] });
    }
    if tier == "thorough" {
        let c = fault_circuit(2, 2);
        let inputs: Vec<Vec<bool>> = (0..2).map(|_| vec![rng.random(), rng.random()]).collect();
        v.push(Config { name: "n2-E1-Oall-5and".into(), circ: c, inputs, p_eval: 1, p_out: vec![0, 1] });
    }
    v
}

#[derive(Clone, Debug)]
pub struct PilotMsg {
    pub from: usize,
    pub to: usize,
    pub label: String,
    pub k: usize,
    pub idx_from: usize,
    pub len: usize,
    pub tree: Option<Val>,
    pub bytes: Vec<u8>,
}

pub struct Pilot {
    pub msgs: Vec<PilotMsg>,
    pub baseline_alloc: Vec<usize>,
    pub ok: bool,
    pub schema_errors: Vec<String>,
}

/// Honest run of a configuration: the message list fault plans refer to.
pub fn pilot(cfg: &Config) -> Pilot {
    let case = Case::new(cfg.circ.clone(), cfg.inputs.clone(), cfg.p_eval, cfg.p_out.clone());
    let ex = exec_mpc(case);
    let mut ok = ex.end == RunEnd::AllFinished;
    let expected = circ::eval_clear(&cfg.circ, &cfg.inputs);
    for p in 0..cfg.n() {
        let want = if cfg.p_out.contains(&p) { expected.clone() } else { vec![] };
        if !matches!(&ex.outcomes[p], Outcome::Done(Ok(v)) if *v == want) {
            ok = false;
        }
    }
    let mut schema_errors = vec![];
    let msgs = ex
        .net
        .msgs
        .iter()
        .map(|m| {
            let label = ex.net.label(m.label).to_string();
            let tree = codec::schema_for(&label).and_then(|s| codec::decode_all(&s, &m.sent));
            match &tree {
                None => schema_errors.push(format!("label '{label}' has no schema or does not decode")),
                Some(t) => {
                    if codec::to_bytes(t) != m.sent {
                        schema_errors.push(format!("label '{label}' does not round-trip"));
                    }
                }
            }
            PilotMsg { from: m.from, to: m.to, label, k: m.k, idx_from: m.idx_from, len: m.sent.len(), tree, bytes: m.sent.clone() }
        })
        .collect();
    Pilot { msgs, baseline_alloc: ex.max_alloc_req.clone(), ok, schema_errors }
}

#[derive(Clone)]
pub struct FaultCase {
    pub cfg_ix: usize,
    pub plan: FaultPlan,
    /// normalised description of what is done (goes into signatures)
    pub class: String,
    /// label of the (first) altered message
    pub label: String,
    pub dead_send: DeadSend,
    pub sched: SchedKind,
    /// tap armed for the corrupted party: (site, index or usize::MAX for all, xor mask byte)
    pub tap: Option<(String, usize)>,
    /// honest parties that are expected to abort (consume the altered value)
    pub expect_abort: Vec<usize>,
    /// run the C07 leak scan on this execution
    pub scan_leak: bool,
    /// record probes (needed by dynamic mutations that use the corrupted party's own key)
    pub needs_probes: bool,
    /// repetition index (fresh coins)
    pub rep: usize,
    /// byte positions of the tapped value that are flipped (default: byte 0)
    pub tap_positions: Vec<usize>,
}

impl FaultCase {
    pub fn new(cfg_ix: usize, plan: FaultPlan, class: String, label: String) -> Self {
        FaultCase { cfg_ix, plan, class, label, dead_send: DeadSend::Err, sched: SchedKind::RoundRobin, tap: None, expect_abort: vec![], scan_leak: false, needs_probes: false, rep: 0, tap_positions: vec![0] }
    }
}

pub struct FaultRun {
    pub ex: Exec,
    pub fired: usize,
    pub applied: usize,
    pub tap_fired: usize,
}

pub fn exec_fault(cfg: &Config, fc: &FaultCase, record_probes: bool) -> FaultRun {
    let mut case = Case::new(cfg.circ.clone(), cfg.inputs.clone(), cfg.p_eval, cfg.p_out.clone());
    let (adv, log) = PlanAdversary::new(fc.plan.clone());
    case.adversary = Some(Box::new(adv));
    case.dead_send = fc.dead_send;
    case.record_probes = record_probes;
    case = case.with_sched(fc.sched.clone(), fc.plan.seed);
    let tap_count = std::rc::Rc::new(std::cell::Cell::new(0usize));
    if let Some((site, index)) = fc.tap.clone() {
        let c = fc.plan.corrupt;
        let tc = tap_count.clone();
        let positions = fc.tap_positions.clone();
        let (site, mode) = match site.split_once('#') { Some((a, b)) => (a.to_string(), b.to_string()), None => (site, String::new()) };
        crate::hooks::install_tap(Some(Box::new(move |s, party, idx, value| {
            if party == Some(c) && s == site && site == "garble.row_plain" && (index == usize::MAX || index == idx) && value.len() >= 25 {
                // serialized (bit, Vec<Mac>, Label): [bit][u64 len][len * 16][16]; the row is re-built with
                // the bit flipped, the label share shifted by the garbler's own global key (so that later
                // gates and the label check stay consistent) and the MAC list cut to `keep` entries
                let len = u64::from_le_bytes(value[1..9].try_into().unwrap()) as usize;
                let keep: usize = match mode.as_str() { "nomac" => 0, "onemac" => 1, _ => len };
                if value.len() == 9 + 16 * len + 16 && keep <= len {
                    if let Some(delta) = crate::hooks::delta_of(c) {
                        let label = u128::from_le_bytes(value[9 + 16 * len..9 + 16 * len + 16].try_into().unwrap()) ^ delta;
                        value[0] ^= 1;
                        value[1..9].copy_from_slice(&(keep as u64).to_le_bytes());
                        value[9 + 16 * keep..9 + 16 * keep + 16].copy_from_slice(&label.to_le_bytes());
                        tc.set(tc.get() + 1);
                    }
                }
                return;
            }
            let gate_site = site.strip_suffix("@gate");
            if let Some(gs) = gate_site {
                // every row of one gate (index = instruction index of the gate)
                if party == Some(c) && s == gs && idx / 4 == index && !value.is_empty() {
                    value[0] ^= 1;
                    tc.set(tc.get() + 1);
                }
                return;
            }
            if party == Some(c) && s == site && (index == usize::MAX || index == idx) && !value.is_empty() {
                let mut any = false;
                for p in &positions {
                    if let Some(b) = value.get_mut(*p) {
                        *b ^= 1;
                        any = true;
                    }
                }
                if any {
                    tc.set(tc.get() + 1);
                }
            }
        })));
    }
    let ex = exec_mpc(case);
    if fc.tap.is_some() {
        crate::hooks::install_tap(None);
    }
    let l = log.lock().unwrap();
    let fired = l.fired.len();
    let applied = l.fired.iter().filter(|f| f.3).count();
    FaultRun { ex, fired, applied, tap_fired: tap_count.get() }
}

/// The observations every adversarial oracle needs, as JSON (crosses the shard boundary).
pub fn observe(cfg: &Config, fc: &FaultCase, run: &FaultRun, pilot_alloc: &[usize]) -> Value {
    let n = cfg.n();
    let c = fc.plan.corrupt;
    let ex = &run.ex;
    let honest: Vec<usize> = (0..n).filter(|p| *p != c).collect();
    // bytes received per party
    let mut recv_bytes = vec![0usize; n];
    for e in &ex.net.log {
        if e.kind == EvKind::RecvDone {
            recv_bytes[e.party] += e.len;
        }
    }
    // victims: honest receivers of a mutated message; did they go on to the online phase?
    let mut victims = vec![];
    for h in &honest {
        let first = ex.net.log.iter().find(|e| e.kind == EvKind::RecvDone && e.party == *h && e.msg != usize::MAX && ex.net.msgs[e.msg].mutated);
        if let Some(f) = first {
            let label = ex.net.label(ex.net.msgs[f.msg].label).to_string();
            let pre = !adv::is_online_label(&label);
            let proceeded = ex.net.log.iter().any(|e| e.t > f.t && e.kind == EvKind::SendCall && e.party == *h && adv::is_online_label(ex.net.label(e.label)));
            victims.push(json!({"party": h, "label": label, "preprocessing_msg": pre, "proceeded_to_online": proceeded}));
        }
    }
    // admissible outputs: f(x_honest, x') for every x'
    let k: usize = cfg.circ.input_regs[c];
    let mut admissible: Vec<Vec<bool>> = vec![];
    for m in 0..(1u32 << k) {
        let mut inp = cfg.inputs.clone();
        inp[c] = (0..k).map(|i| m >> i & 1 == 1).collect();
        admissible.push(circ::eval_clear(&cfg.circ, &inp));
    }
    let n_out_bits = cfg.circ.output_regs.len();
    let mut distinct_adm = admissible.clone();
    distinct_adm.sort();
    distinct_adm.dedup();
    let strict = (distinct_adm.len() as u64) < (1u64 << n_out_bits.min(20));
    let mut ok_values: Vec<(usize, Vec<bool>)> = vec![];
    let mut wrong_output = vec![];
    for h in &honest {
        if let Outcome::Done(Ok(v)) = &ex.outcomes[*h] {
            if cfg.p_out.contains(h) {
                ok_values.push((*h, v.clone()));
                if !admissible.contains(v) {
                    wrong_output.push(*h);
                }
            } else if !v.is_empty() {
                wrong_output.push(*h);
            }
        }
    }
    let agree = ok_values.is_empty() || admissible.iter().any(|a| ok_values.iter().all(|(_, v)| v == a));
    let outcomes: Vec<String> = ex.outcomes.iter().map(crate::props::classify).collect();
    let alloc_bound: Vec<usize> = (0..n).map(|p| (8usize << 20).max(64 * recv_bytes[p]) + pilot_alloc.get(p).copied().unwrap_or(0)).collect();
    json!({
        "cfg": cfg.name,
        "corrupt": c,
        "corrupt_role": if c == cfg.p_eval { "evaluator" } else { "garbler" },
        "class": fc.class,
        "label": fc.label,
        "dead_send": format!("{:?}", fc.dead_send),
        "end": format!("{:?}", ex.end),
        "outcomes": outcomes,
        "outcomes_raw": ex.outcomes.iter().map(outcome_str).collect::<Vec<_>>(),
        "honest": honest,
        "fired": run.fired,
        "applied": run.applied,
        "tap_fired": run.tap_fired,
        "victims": victims,
        "wrong_output": wrong_output,
        "agree": agree,
        "admissible_strict": strict,
        "ok_values": ok_values.iter().map(|(p, v)| json!({"party": p, "value": bits(v)})).collect::<Vec<_>>(),
        "max_alloc_req": ex.max_alloc_req,
        "alloc_bound": alloc_bound,
        "recv_bytes": recv_bytes,
        "messages": ex.net.msgs.len(),
        "events": ex.net.log.len(),
        "expect_abort": fc.expect_abort,
        "inputs": cfg.inputs.iter().map(|v| bits(v)).collect::<Vec<_>>(),
        "p_eval": cfg.p_eval,
        "p_out": cfg.p_out,
        "sent_online": (0..n).map(|p| ex.net.log.iter().any(|e| e.kind == EvKind::SendCall && e.party == p && adv::is_online_label(ex.net.label(e.label)))).collect::<Vec<_>>(),
        "leak": leak_obs(fc, run),
        "rep": fc.rep,
    })
}

fn leak_obs(fc: &FaultCase, run: &FaultRun) -> Value {
    if !fc.scan_leak {
        return Value::Null;
    }
    let n = run.ex.outcomes.len();
    let mut out = vec![];
    for t in (0..n).filter(|p| *p != fc.plan.corrupt) {
        let Some(d) = run.ex.probes.iter().find(|r| r.site == "delta" && r.index == t) else {
            out.push(json!({"target": t, "no_delta_probe": true}));
            continue;
        };
        let delta = u128::from_le_bytes(d.value[..16].try_into().unwrap());
        let r = crate::leak::scan(&run.ex.net, delta, false, Some(fc.plan.corrupt));
        out.push(json!({"target": t, "windows": r.windows, "kind": r.kind(), "direct": r.direct, "pair": r.pair}));
    }
    json!(out)
}

pub struct World {
    pub cfgs: Vec<Config>,
    pub pilots: Vec<Pilot>,
    pub cases: Vec<FaultCase>,
}

impl World {
    pub fn new(tier: &str, seed: u64) -> Self {
        Self::with_extra(tier, seed, vec![])
    }

    pub fn with_extra(tier: &str, seed: u64, extra: Vec<Config>) -> Self {
        let mut cfgs = fault_configs(tier, seed);
        cfgs.extend(extra);
        let pilots: Vec<Pilot> = cfgs.iter().map(pilot).collect();
        World { cfgs, pilots, cases: vec![] }
    }

    pub fn run_case(&self, idx: usize) -> Value {
        let fc = &self.cases[idx];
        let cfg = &self.cfgs[fc.cfg_ix];
        let run = exec_fault(cfg, fc, fc.scan_leak || fc.needs_probes);
        observe(cfg, fc, &run, &self.pilots[fc.cfg_ix].baseline_alloc)
    }

    pub fn child(&self, a: crate::shard::ShardArgs) {
        crate::sim::set_quiet_panics(true);
        crate::shard::child_loop(self.cases.len(), a.shard, a.of, a.from, |i| self.run_case(i));
    }

    /// Runs all cases in sharded children and hands every result to `judge`.
    pub fn drive(
        &self,
        prop: &str,
        tier: &str,
        seed: u64,
        rep: &mut crate::report::Report,
        mut judge: impl FnMut(&mut crate::report::Report, &FaultCase, &Config, &Value),
    ) {
        for (p, cfg) in self.pilots.iter().zip(&self.cfgs) {
            if !p.ok {
                rep.harness_error(format!("pilot run of {} is not an honest success", cfg.name));
            }
            for e in &p.schema_errors {
                rep.harness_error(format!("schema table out of date: {e}"));
            }
        }
        let results = crate::shard::run_parent(prop, tier, seed, self.cases.len(), crate::runner::threads(), &[]);
        for (fc, r) in self.cases.iter().zip(results) {
            rep.evaluations += 1;
            let cfg = &self.cfgs[fc.cfg_ix];
            let via = format!("label={} mut={}", fc.label, fc.class);
            match r {
                crate::shard::CaseResult::Aborted(desc, stderr) => {
                    if prop == "C08" && desc.starts_with("cpu-time limit exceeded") {
                        rep.violation(format!("an honest party did not return within the CPU-time limit on hostile bytes via {via}"), json!({"cfg": cfg.name, "corrupt": fc.plan.corrupt, "class": fc.class, "label": fc.label, "limit_s": std::env::var("PV_CASE_CPU_LIMIT_S").unwrap_or("40".into())}));
                    } else if desc.starts_with("cpu-time limit exceeded") {
                        rep.inconclusive("case exceeded the CPU-time limit");
                    } else if prop == "C08" && (stderr.contains("memory allocation of") || stderr.contains("capacity overflow")) {
                        rep.violation(format!("process abort (allocation failure) via {via}"), json!({"cfg": cfg.name, "corrupt": fc.plan.corrupt, "class": fc.class, "label": fc.label, "abort": desc, "stderr": stderr}));
                    } else {
                        rep.harness_error(format!("shard died ({desc}) in case {via}: {stderr}"));
                    }
                }
                crate::shard::CaseResult::Done(v) => {
                    let end = v["end"].as_str().unwrap_or("");
                    if end.starts_with("HarnessError") {
                        rep.harness_error(format!("{end} in {via}"));
                        continue;
                    }
                    if end == "StepLimit" {
                        rep.inconclusive("step limit");
                        continue;
                    }
                    judge(rep, fc, cfg, &v);
                }
            }
        }
        rep.set("configurations", json!(self.cfgs.iter().map(|c| c.name.clone()).collect::<Vec<_>>()));
    }
}

pub fn honest_of(v: &Value) -> Vec<usize> {
    v["honest"].as_array().map(|a| a.iter().filter_map(|x| x.as_u64()).map(|x| x as usize).collect()).unwrap_or_default()
}

pub fn effective(fc: &FaultCase, v: &Value) -> bool {
    v["applied"].as_u64().unwrap_or(0) > 0 || v["tap_fired"].as_u64().unwrap_or(0) > 0 || fc.class.starts_with("crash") || fc.class.starts_with("silent")
}
