//! C08 - hostile or vanishing peers cause an error return, never a panic or a hang.
use rand::{Rng, SeedableRng};
use rand_chacha::ChaCha8Rng;
use serde_json::json;

use crate::adv::{self, ByteMut, CrashAt, FaultAction, FaultPlan, Target, What};
use crate::codec::{self, Density, MutOp};
use crate::faults::{self, FaultCase};
use crate::report::Report;
use crate::shard;
use crate::sim::DeadSend;

use crate::faults::World;

fn structural(op: &MutOp) -> bool {
    matches!(op, MutOp::PopLast | MutOp::PopFirst | MutOp::DupLast | MutOp::Empty | MutOp::Halve | MutOp::SomeToNone | MutOp::NoneToSome | MutOp::NoneToSomeOne | MutOp::KeepFirst(_) | MutOp::BoolTwo)
}

pub fn build(tier: &str, seed: u64) -> World {
    let thorough = tier == "thorough";
    let World { cfgs, pilots, .. } = World::new(tier, seed);
    let mut cases = vec![];
    for (ci, cfg) in cfgs.iter().enumerate() {
        let n = cfg.n();
        if cfg.name.ends_with("-big") {
            continue;
        }
        // quick: all n=2 configurations, one n=3 configuration completely, the rest of n=3 sparsely
        let dense = n == 2 || thorough;
        let stride = if cfg.name == "n3-E1-Oall" { 2 } else { 6 };
        for c in 0..n {
            let msgs: Vec<_> = pilots[ci].msgs.iter().filter(|m| m.from == c).collect();
            for (mi, m) in msgs.iter().enumerate() {
                if !dense && mi % stride != (c + ci + seed as usize) % stride {
                    continue;
                }
                let target = Target { from: c, to: Some(m.to), label: m.label.clone(), k: Some(m.k) };
                let seed_case = seed ^ ((ci as u64) << 40) ^ ((c as u64) << 32) ^ (mi as u64) << 8;
                for bm in adv::byte_mut_classes() {
                    if matches!(bm, ByteMut::FlipRandomBit) && !thorough {
                        continue;
                    }
                    let plan = FaultPlan { corrupt: c, actions: vec![FaultAction { target: target.clone(), what: What::Bytes(bm.clone()) }], crash: None, seed: seed_case };
                    cases.push(FaultCase::new(ci, plan, format!("bytes:{bm:?}"), m.label.clone()));
                }
                // schema-free sweep: every byte offset of a short message (all of them up to 64 bytes, else the
                // first 24 and 8 others) is overwritten once - whatever the layout, each small field takes an
                // out-of-range value in some case
                if m.k == 0 || thorough {
                    let len = m.len;
                    let mut offs: Vec<usize> = if len <= 64 { (0..len).collect() } else { (0..24).collect() };
                    if len > 64 {
                        let mut r = ChaCha8Rng::seed_from_u64(seed_case ^ 0x0ff5);
                        for _ in 0..8 {
                            offs.push(r.random_range(24..len));
                        }
                    }
                    for off in offs {
                        let plan = FaultPlan { corrupt: c, actions: vec![FaultAction { target: target.clone(), what: What::Bytes(ByteMut::SetByteAt(off)) }], crash: None, seed: seed_case };
                        cases.push(FaultCase::new(ci, plan, "bytes:SetByteAt".to_string(), m.label.clone()));
                    }
                }
                if let Some(tree) = &m.tree {
                    let muts = codec::enumerate(tree, if thorough { Density::Full } else { Density::Sampled });
                    let mut seen = std::collections::BTreeSet::new();
                    for tm in muts {
                        if !structural(&tm.op) {
                            continue;
                        }
                        // one representative per (op, depth, position class of the last index)
                        let pos = tm.path.last().map(|i| if *i == 0 { "first" } else { "later" }).unwrap_or("root");
                        let key = format!("{}:{}", tm.describe(), pos);
                        if !thorough && !seen.insert(key) {
                            continue;
                        }
                        let class = format!("tree:{}", tm.describe());
                        let plan = FaultPlan { corrupt: c, actions: vec![FaultAction { target: target.clone(), what: What::Tree(tm) }], crash: None, seed: seed_case };
                        cases.push(FaultCase::new(ci, plan, class, m.label.clone()));
                    }
                }
                // sibling-independent inner mutations for the labels with paired inner vectors
                if m.label == "dvalue" {
                    for (which, op) in [(0usize, MutOp::Empty), (1, MutOp::Empty), (0, MutOp::PopLast), (1, MutOp::PopLast), (0, MutOp::DupLast), (1, MutOp::DupLast)] {
                        let tm = codec::TreeMut { path: vec![0, which], op: op.clone() };
                        let plan = FaultPlan { corrupt: c, actions: vec![FaultAction { target: target.clone(), what: What::Tree(tm) }], crash: None, seed: seed_case };
                        cases.push(FaultCase::new(ci, plan, format!("tree:inner{which}:{op:?}"), m.label.clone()));
                    }
                }
                // the peer disappears after this message (both send-to-dead semantics)
                if dense || mi % 3 == 0 {
                    for ds in [DeadSend::Err, DeadSend::Drop] {
                        let plan = FaultPlan { corrupt: c, actions: vec![], crash: Some(CrashAt { party: c, after_idx: m.idx_from }), seed: seed_case };
                        let mut fc = FaultCase::new(ci, plan, format!("crash-after-msg:{ds:?}"), m.label.clone());
                        fc.dead_send = ds;
                        cases.push(fc);
                    }
                }
            }
            // the peer never sends anything
            let plan = FaultPlan { corrupt: c, actions: vec![], crash: None, seed };
            let mut fc = FaultCase::new(ci, plan, "silent-from-start".into(), "-".into());
            fc.plan.actions.push(FaultAction { target: Target { from: c, to: None, label: "RNG comm".into(), k: Some(0) }, what: What::CrashAfter });
            cases.push(fc);
        }
    }
    World { cfgs, pilots, cases }
}

pub fn child(tier: &str, seed: u64, a: shard::ShardArgs) {
    build(tier, seed).child(a);
}

pub fn run(tier: &str, seed: u64) -> i32 {
    let mut rep = Report::new("C08", tier, seed, "fault_enumeration");
    rep.rule = "one corrupted party; for every message it sends (per configuration, receiver and occurrence): byte-level classes (incl. schema-free emptying / shortening of the last vector and, for the first occurrence of each label, a sweep that overwrites every byte offset of short messages), structure-aware tree mutations (element count +-1 / emptied / halved at each nesting level, Some<->None, bool byte 2) and a crash after the message with both send-to-dead semantics. distinct = (configuration, corrupted party, label, mutation class); non-trivial = the mutation changed the bytes on the wire or the crash point was reached".into();
    rep.assumptions = vec![
        "peer termination closes its endpoints: receive from a terminated peer fails after queued messages are drained".into(),
        "allocation bound: a single request attributed to an honest party must stay below max(8 MiB, 64 x bytes received) + honest baseline".into(),
    ];
    let w = build(tier, seed);
    let mut by_label = std::collections::BTreeMap::new();
    let mut outcome_hist = std::collections::BTreeMap::new();
    let mut n_samples = 0u64;
    w.drive("C08", tier, seed, &mut rep, |rep, fc, cfg, v| {
        let via = format!("label={} mut={}", fc.label, fc.class);
        let effective = faults::effective(fc, v);
        if effective {
            rep.distinct.insert(format!("{}|c{}|{}|{}", cfg.name, fc.plan.corrupt, fc.label, fc.class));
        }
        *by_label.entry(fc.label.clone()).or_insert(0u64) += 1;
        let mut bad = false;
        for h in faults::honest_of(v) {
            let oc = v["outcomes"][h].as_str().unwrap_or("?").to_string();
            *outcome_hist.entry(oc.split(':').next().unwrap_or("?").split('@').next().unwrap_or("?").to_string()).or_insert(0u64) += 1;
            if oc.starts_with("Panic@") {
                rep.violation(format!("{} via {via}", oc.replace("Panic@", "panic@")), v.clone());
                bad = true;
            } else if oc == "Unfinished" {
                rep.violation(format!("hang (no runnable task, peers terminated) via {via}"), v.clone());
                bad = true;
            }
            let req = v["max_alloc_req"][h].as_u64().unwrap_or(0);
            let bound = v["alloc_bound"][h].as_u64().unwrap_or(u64::MAX);
            if req > bound {
                rep.violation(format!("allocation out of proportion via {via}"), v.clone());
                bad = true;
            }
        }
        n_samples += 1;
        if !bad && effective && n_samples % 97 == 1 {
            rep.sample(v.clone());
        }
    });
    rep.set("cases_per_label", json!(by_label));
    rep.set("honest_outcome_histogram", json!(outcome_hist));
    rep.finish()
}
