//! Verdict accumulation, evidence files, known findings, replay files.
use std::collections::{BTreeMap, BTreeSet};
use std::time::Instant;

use serde_json::{Value, json};

#[derive(Clone, Debug)]
pub struct Violation {
    /// normalised: must not contain coin-dependent data
    pub signature: String,
    pub detail: Value,
}

pub struct Report {
    pub prop: String,
    pub tier: String,
    pub seed: u64,
    pub level: &'static str,
    pub evaluations: u64,
    pub distinct: BTreeSet<String>,
    pub rule: String,
    pub samples: Vec<Value>,
    pub extra: BTreeMap<String, Value>,
    pub violations: Vec<Violation>,
    pub inconclusive: u64,
    pub inconclusive_reasons: BTreeMap<String, u64>,
    pub harness_errors: Vec<String>,
    pub assumptions: Vec<String>,
    pub start: Instant,
    pub max_samples: usize,
}

pub fn verif_root() -> std::path::PathBuf {
    std::path::PathBuf::from(std::env::var("PV_ROOT").unwrap_or_else(|_| "/verif".to_string()))
}

impl Report {
    pub fn new(prop: &str, tier: &str, seed: u64, level: &'static str) -> Self {
        Report {
            prop: prop.to_string(),
            tier: tier.to_string(),
            seed,
            level,
            evaluations: 0,
            distinct: BTreeSet::new(),
            rule: String::new(),
            samples: vec![],
            extra: BTreeMap::new(),
            violations: vec![],
            inconclusive: 0,
            inconclusive_reasons: BTreeMap::new(),
            harness_errors: vec![],
            assumptions: vec![],
            start: Instant::now(),
            max_samples: 6,
        }
    }

    pub fn sample(&mut self, v: Value) {
        if self.samples.len() < self.max_samples {
            self.samples.push(v);
        }
    }

    pub fn violation(&mut self, signature: impl Into<String>, detail: Value) {
        self.violations.push(Violation { signature: signature.into(), detail });
    }

    pub fn inconclusive(&mut self, reason: &str) {
        self.inconclusive += 1;
        *self.inconclusive_reasons.entry(reason.to_string()).or_insert(0) += 1;
    }

    pub fn harness_error(&mut self, what: impl Into<String>) {
        let w = what.into();
        if self.harness_errors.len() < 50 {
            self.harness_errors.push(w);
        } else {
            self.harness_errors[49] = format!("... and more ({})", w);
        }
    }

    pub fn add(&mut self, key: &str, n: u64) {
        let e = self.extra.entry(key.to_string()).or_insert(json!(0));
        *e = json!(e.as_u64().unwrap_or(0) + n);
    }

    pub fn set(&mut self, key: &str, v: Value) {
        self.extra.insert(key.to_string(), v);
    }

    /// Writes the evidence file, prints KNOWN-FINDING / VIOLATION lines, returns the exit code.
    pub fn finish(mut self) -> i32 {
        let root = verif_root();
        let known = load_known(&root);
        let mut new_violations: BTreeMap<String, Violation> = BTreeMap::new();
        let mut known_hits: BTreeMap<String, u64> = BTreeMap::new();
        for v in &self.violations {
            let is_known = known.iter().any(|k| k.property == self.prop && k.status == "known" && k.signature == v.signature);
            if is_known {
                *known_hits.entry(v.signature.clone()).or_insert(0) += 1;
            } else {
                new_violations.entry(v.signature.clone()).or_insert_with(|| v.clone());
            }
        }
        for (sig, cnt) in &known_hits {
            println!("KNOWN-FINDING: property={} {} (observed {} times in this run)", self.prop, sig, cnt);
        }
        let mut exit = 0;
        let _ = std::fs::create_dir_all(root.join("replays"));
        let n_new_total = self.violations.iter().filter(|v| new_violations.contains_key(&v.signature)).count();
        for (sig, v) in &new_violations {
            let h = blake3::hash(format!("{}|{}", self.prop, sig).as_bytes()).to_hex()[..12].to_string();
            let path = root.join("replays").join(format!("{}-{}.json", self.prop, h));
            let body = json!({
                "property": self.prop,
                "signature": sig,
                "tier": self.tier,
                "seed": self.seed,
                "witness": v.detail,
            });
            let _ = std::fs::write(&path, serde_json::to_string_pretty(&body).unwrap_or_default());
            println!("VIOLATION property={} replay={}", self.prop, path.display());
            println!("  signature: {sig}");
            exit = 1;
        }
        let wall = self.start.elapsed().as_secs_f64();
        let total = self.evaluations.max(1);
        let bad = self.inconclusive + self.harness_errors.len() as u64;
        let mut coverage = serde_json::Map::new();
        coverage.insert("evaluations".into(), json!(self.evaluations));
        coverage.insert("distinct_nontrivial".into(), json!(self.distinct.len()));
        coverage.insert("rule".into(), json!(self.rule));
        coverage.insert("samples".into(), json!(self.samples));
        coverage.insert("inconclusive".into(), json!(self.inconclusive));
        coverage.insert("inconclusive_reasons".into(), json!(self.inconclusive_reasons));
        coverage.insert("harness_errors".into(), json!(self.harness_errors));
        coverage.insert("known_findings_observed".into(), json!(known_hits));
        coverage.insert("new_violation_signatures".into(), json!(new_violations.keys().collect::<Vec<_>>()));
        for (k, v) in std::mem::take(&mut self.extra) {
            coverage.insert(k, v);
        }
        let ev = json!({
            "property_id": self.prop,
            "tier": self.tier,
            "seed": self.seed,
            "level": self.level,
            "coverage": Value::Object(coverage),
            "assumptions": self.assumptions,
            "wall_s": wall,
            "violations": n_new_total,
        });
        let _ = std::fs::create_dir_all(root.join("evidence"));
        let path = root.join("evidence").join(format!("{}.json", self.prop));
        if let Err(e) = std::fs::write(&path, serde_json::to_string_pretty(&ev).unwrap_or_default()) {
            eprintln!("cannot write evidence {}: {e}", path.display());
            return 2;
        }
        println!(
            "{} {} seed={} evaluations={} distinct_nontrivial={} violations(new)={} known_hits={} inconclusive={} harness_errors={} wall={:.1}s",
            self.prop,
            self.tier,
            self.seed,
            self.evaluations,
            self.distinct.len(),
            n_new_total,
            known_hits.values().sum::<u64>(),
            self.inconclusive,
            self.harness_errors.len(),
            wall
        );
        if exit == 0 {
            if !self.harness_errors.is_empty() && (self.harness_errors.len() as u64 * 100 > total) {
                eprintln!("HARNESS-ERROR: {} harness errors, first: {}", self.harness_errors.len(), self.harness_errors[0]);
                return 2;
            }
            if bad * 20 > total {
                eprintln!("INCONCLUSIVE: {bad} of {total} executions inconclusive/harness errors (> 5 %)");
                return 2;
            }
            if self.evaluations == 0 || self.distinct.len() < 2 {
                eprintln!("INCONCLUSIVE: observed too little (evaluations={}, distinct={})", self.evaluations, self.distinct.len());
                return 2;
            }
        }
        exit
    }
}

pub struct Known {
    pub property: String,
    pub signature: String,
    pub status: String,
}

pub fn load_known(root: &std::path::Path) -> Vec<Known> {
    let p = root.join("known_findings.json");
    let Ok(s) = std::fs::read_to_string(&p) else { return vec![] };
    let Ok(v) = serde_json::from_str::<Value>(&s) else {
        eprintln!("warning: {} does not parse", p.display());
        return vec![];
    };
    v["findings"]
        .as_array()
        .map(|a| {
            a.iter()
                .map(|f| Known {
                    property: f["property"].as_str().unwrap_or("").to_string(),
                    signature: f["signature"].as_str().unwrap_or("").to_string(),
                    status: f["status"].as_str().unwrap_or("").to_string(),
                })
                .collect()
        })
        .unwrap_or_default()
}

pub fn bits(v: &[bool]) -> String {
    v.iter().map(|b| if *b { '1' } else { '0' }).collect()
}
