#[doc(hidden)]
pub mod __private229 {
    #[doc(hidden)]
    pub use crate::private::*;
}
use serde_core::__private229 as serde_core_private;
