pub mod c01;
pub mod c02;
pub mod c03;
pub mod c04;
pub mod c05;
pub mod c06;
pub mod c07;
pub mod c08;
pub mod c09;
pub mod c10;
pub mod c11;
pub mod c12;
pub mod c13;
pub mod srv;
pub mod c18;
pub mod c19;
pub mod c20;

pub fn dispatch(prop: &str, tier: &str, seed: u64, path: Option<&str>) -> i32 {
    let _ = path;
    if tier == "shard" {
        // child mode: pv <PROP> shard <tier> --seed S --shard i/N --from j
        let args: Vec<String> = std::env::args().collect();
        let real_tier = args.get(3).cloned().unwrap_or_else(|| "quick".into());
        let Some(a) = crate::shard::parse_shard_args(&args) else { return 2 };
        match prop {
            "C08" => c08::child(&real_tier, seed, a),
            "C02" => c02::child(&real_tier, seed, a),
            "C03" => c03::child(&real_tier, seed, a),
            "C04" => c04::child(&real_tier, seed, a),
            "C07" => c07::child(&real_tier, seed, a),
            "C13" => c13::child(&real_tier, seed, a),
            "C14" | "C15" | "C16" | "C17" => srv::child(prop, &real_tier, seed, a),
            _ => return 2,
        }
        return 0;
    }
    match prop {
        "C01" => c01::run(tier, seed),
        "C08" => c08::run(tier, seed),
        "C09" => c09::run(tier, seed),
        "C10" => c10::run(tier, seed),
        "C11" => c11::run(tier, seed),
        "C12" => c12::run(tier, seed),
        "C13" => c13::run(tier, seed),
        "C14" => srv::run("C14", tier, seed),
        "C15" => srv::run("C15", tier, seed),
        "C16" => srv::run("C16", tier, seed),
        "C17" => srv::run("C17", tier, seed),
        "C18" => c18::run(tier, seed),
        "C19" => c19::run(tier, seed),
        "C20" => c20::run(tier, seed),
        "C02" => c02::run(tier, seed),
        "C03" => c03::run(tier, seed),
        "C04" => c04::run(tier, seed),
        "C05" => c05::run(tier, seed),
        "C06" => c06::run(tier, seed),
        "C07" => c07::run(tier, seed),
        _ => {
            eprintln!("unknown property {prop}");
            2
        }
    }
}

/// Normalised class of an mpc outcome (no coin-dependent data).
pub fn classify(o: &crate::sim::Outcome<crate::runner::MpcOut>) -> String {
    use crate::sim::Outcome;
    match o {
        Outcome::Done(Ok(_)) => "Ok".into(),
        Outcome::Done(Err(e)) => format!("Err:{}", err_class(e)),
        Outcome::Panic(_, loc) => format!("Panic@{loc}"),
        Outcome::Crashed => "Crashed".into(),
        Outcome::Unfinished => "Unfinished".into(),
    }
}

/// An outcome caused by the environment of the check (temp-file I/O failure, disk full), not by the
/// engine: such executions are inconclusive, never violations.
pub fn env_failure(o: &crate::sim::Outcome<crate::runner::MpcOut>) -> bool {
    match o {
        crate::sim::Outcome::Done(Err(e)) => e.starts_with("TempFile(") || e.starts_with("TempFileSerDe(Io") || e.contains("StorageFull") || e.contains("No space left on device"),
        _ => false,
    }
}

/// First identifiers of a Debug-formatted error, e.g. `MpcError(InvalidOutputMac`.
pub fn err_class(e: &str) -> String {
    let mut out = String::new();
    let mut depth = 0;
    for ch in e.chars() {
        if ch.is_alphanumeric() || ch == '_' {
            out.push(ch);
        } else if ch == '(' || ch == '{' {
            depth += 1;
            if depth > 2 {
                break;
            }
            out.push('(');
        } else {
            break;
        }
    }
    out.trim_end_matches('(').to_string()
}

/// Debug helper: message list of one honest run.
pub fn dump(n: usize) {
    use crate::circ::Builder;
    let inputs: Vec<usize> = (0..n).map(|_| 2).collect();
    let mut b = Builder::new(&inputs);
    let a = b.and(b.input(0, 0), b.input(1, 0));
    let x = b.xor(a, b.input(0, 1));
    let nx = b.not(x);
    let a2 = b.and(nx, b.input(n - 1, 1));
    let c = b.finish(vec![a2, x]);
    let inp: Vec<Vec<bool>> = (0..n).map(|_| vec![true, false]).collect();
    let mut case = crate::runner::Case::new(c, inp, 0, (0..n).collect());
    case.record_probes = true;
    let ex = crate::runner::exec_mpc(case);
    for m in &ex.net.msgs {
        let label = ex.net.label(m.label).to_string();
        let sch = crate::codec::schema_for(&label);
        let ok = sch.as_ref().map(|s| crate::codec::decode_all(s, &m.sent).map(|v| crate::codec::to_bytes(&v) == m.sent));
        println!("{:4} {}->{} {:28} k={} len={:7} roundtrip={:?}", m.id, m.from, m.to, label, m.k, m.sent.len(), ok);
    }
    for p in &ex.probes {
        println!("probe {} party={:?} idx={} len={}", p.site, p.party, p.index, p.value.len());
    }
    println!("{:?} {:?}", ex.end, ex.outcomes.iter().map(crate::runner::outcome_str).collect::<Vec<_>>());
}
