//! `pv` - runtime monitors for polytune (see /verif/DESIGN.md).
mod adv;
mod alloc;
mod circ;
mod codec;
mod faults;
mod hooks;
mod leak;
mod shard;
mod props;
mod report;
mod runner;
mod server;
mod sim;

fn main() {
    let args: Vec<String> = std::env::args().collect();
    if args.len() < 3 {
        eprintln!("usage: pv <C01..C20> <quick|thorough|replay> [path] [--seed N]");
        std::process::exit(2);
    }
    let prop = args[1].to_uppercase();
    let tier = args[2].clone();
    let mut seed: u64 = std::env::var("VERIF_SEED").ok().and_then(|s| s.parse().ok()).unwrap_or(1);
    let mut path = None;
    let mut i = 3;
    while i < args.len() {
        if args[i] == "--seed" && i + 1 < args.len() {
            seed = args[i + 1].parse().unwrap_or(seed);
            i += 2;
        } else {
            path = Some(args[i].clone());
            i += 1;
        }
    }
    sim::install_panic_hook();
    if prop == "DUMP" {
        props::dump(args.get(2).and_then(|s| s.parse().ok()).unwrap_or(2));
        return;
    }
    let _ = std::fs::create_dir_all(runner::scratch_root());
    let code = props::dispatch(&prop, &tier, seed, path.as_deref());
    // remove our scratch directories
    if let Ok(rd) = std::fs::read_dir(runner::scratch_root()) {
        let prefix = format!("{}-", std::process::id());
        for e in rd.flatten() {
            if e.file_name().to_string_lossy().starts_with(&prefix) {
                let _ = std::fs::remove_dir_all(e.path());
            }
        }
    }
    std::process::exit(code);
}
