//! C03 - tampering with authenticated values in the online phase makes the victim abort.
use serde_json::json;

use crate::adv::{FaultAction, FaultPlan, Target, What};
use crate::codec::{MutOp, TreeMut, Val};
use crate::faults::{self, FaultCase, PilotMsg, World};
use crate::report::Report;
use crate::shard;

/// indices of the `Some` slots of a vec(opt(..)) message
pub fn some_slots(m: &PilotMsg) -> Vec<usize> {
    match &m.tree {
        Some(Val::Vec(items)) => items.iter().enumerate().filter(|(_, v)| matches!(v, Val::Opt(Some(_)))).map(|(i, _)| i).collect(),
        _ => vec![],
    }
}

/// indices of the `None` slots of a vec(opt(..)) message
pub fn vec_none_slots(m: &PilotMsg) -> Vec<usize> {
    match &m.tree {
        Some(Val::Vec(items)) => items.iter().enumerate().filter(|(_, v)| matches!(v, Val::Opt(None))).map(|(i, _)| i).collect(),
        _ => vec![],
    }
}

pub fn pick(v: &[usize], all: bool) -> Vec<usize> {
    if all || v.len() <= 3 {
        return v.to_vec();
    }
    vec![v[0], v[v.len() / 2], v[v.len() - 1]]
}

fn h64(s: &str) -> u64 {
    s.bytes().fold(0xcbf29ce484222325u64, |x, b| (x ^ b as u64).wrapping_mul(0x100000001b3))
}

fn one(c: usize, to: usize, label: &str, k: usize, what: What, seed: u64) -> FaultPlan {
    FaultPlan { corrupt: c, actions: vec![FaultAction { target: Target { from: c, to: Some(to), label: label.to_string(), k: Some(k) }, what }], crash: None, seed }
}

pub fn catalogue(w: &World, tier: &str, seed: u64, reps: usize) -> Vec<FaultCase> {
    let thorough = tier == "thorough";
    let mut cases = vec![];
    for (ci, cfg) in w.cfgs.iter().enumerate() {
        let n = cfg.n();
        for c in 0..n {
            let msgs: Vec<&PilotMsg> = w.pilots[ci].msgs.iter().filter(|m| m.from == c).collect();
            let mut push = |plan: FaultPlan, class: String, label: &str, victims: Vec<usize>, needs_probes: bool, tap: Option<(String, usize)>| {
                for r in 0..reps {
                    let mut p = plan.clone();
                    p.seed ^= (r as u64) << 56;
                    let mut fc = FaultCase::new(ci, p, class.clone(), label.to_string());
                    fc.expect_abort = victims.clone();
                    fc.needs_probes = needs_probes;
                    fc.tap = tap.clone();
                    fc.rep = r;
                    cases.push(fc);
                }
            };
            for m in &msgs {
                if cfg.name.ends_with("-big") && !(m.label == "preprocessed gates" || (m.label == "labels" && !thorough)) {
                    // the small configurations cover the other fields; here: every chunk of garbled gates
                    continue;
                }
                let ops_cfg = cfg.name.ends_with("-ops");
                if ops_cfg && m.label != "labels" {
                    // operand-position circuit: only the labels, but every one of them
                    continue;
                }
                let s = seed ^ ((ci as u64) << 40) ^ ((c as u64) << 32) ^ ((m.idx_from as u64) << 8);
                match m.label.as_str() {
                    "wire shares" | "output wire shares" | "lambda" => {
                        let slots = some_slots(m);
                        // correlated alterations of two positions (would pass a check that only
                        // authenticates an aggregate of the shares)
                        if slots.len() >= 2 {
                            let pairs: Vec<(usize, usize)> = if slots.len() >= 3 { vec![(slots[0], slots[1]), (slots[0], slots[slots.len() - 1]), (slots[1], slots[slots.len() - 1])] } else { vec![(slots[0], slots[1])] };
                            for (pi, (a, b)) in pairs.into_iter().enumerate() {
                                push(one(c, m.to, &m.label, m.k, What::TreeMulti(vec![TreeMut { path: vec![a, 0, 0], op: MutOp::FlipBit }, TreeMut { path: vec![b, 0, 0], op: MutOp::FlipBit }]), s ^ (a * 31 + b) as u64), format!("flip-two-bits:pair{pi}"), &m.label, vec![m.to], false, None);
                                push(one(c, m.to, &m.label, m.k, What::Tree(TreeMut { path: vec![], op: MutOp::SwapElems(a, b) }), s ^ (a * 37 + b) as u64), format!("swap-two-authenticated-entries:pair{pi}"), &m.label, vec![m.to], false, None);
                                push(one(c, m.to, &m.label, m.k, What::TreeMulti(vec![TreeMut { path: vec![a, 0, 1], op: MutOp::XorU128(0x5a5a_0000_1111_2222_3333_4444_5555_6666) }, TreeMut { path: vec![b, 0, 1], op: MutOp::XorU128(0x5a5a_0000_1111_2222_3333_4444_5555_6666) }]), s ^ (a * 41 + b) as u64), format!("same-offset-on-two-macs:pair{pi}"), &m.label, vec![m.to], false, None);
                            }
                        }
                        for (pi, i) in pick(&slots, thorough).into_iter().enumerate() {
                            let pc = if pi == 0 { "first" } else { "later" };
                            push(one(c, m.to, &m.label, m.k, What::Tree(TreeMut { path: vec![i, 0, 0], op: MutOp::FlipBit }), s ^ i as u64), format!("flip-bit:{pc}"), &m.label, vec![m.to], false, None);
                            push(one(c, m.to, &m.label, m.k, What::Tree(TreeMut { path: vec![i, 0, 1], op: MutOp::FlipBit }), s ^ i as u64), format!("flip-mac-or-label:{pc}"), &m.label, vec![m.to], false, None);
                            push(one(c, m.to, &m.label, m.k, What::Tree(TreeMut { path: vec![i, 0, 1], op: MutOp::Randomize }), s ^ i as u64), format!("random-mac-or-label:{pc}"), &m.label, vec![m.to], false, None);
                            // all-zero MAC / label together with a flipped bit (Mac(0) must not mean "nothing to verify")
                            push(one(c, m.to, &m.label, m.k, What::TreeMulti(vec![TreeMut { path: vec![i, 0, 0], op: MutOp::FlipBit }, TreeMut { path: vec![i, 0, 1], op: MutOp::SetU128(0) }]), s ^ (i as u64 * 3 + 1)), format!("flip-bit-with-zero-mac-or-label:{pc}"), &m.label, vec![m.to], false, None);
                        }
                    }
                    "labels" => {
                        let slots = some_slots(m);
                        if slots.len() >= 2 {
                            push(one(c, m.to, &m.label, m.k, What::Tree(TreeMut { path: vec![], op: MutOp::SwapElems(slots[0], slots[slots.len() - 1]) }), s ^ 77), "swap-two-labels".to_string(), &m.label, vec![m.to], false, None);
                        }
                        if ops_cfg {
                            // the other valid label on TWO wires at once (a row key that combines the two
                            // operand labels by XOR would be unchanged: label ^ delta ^ label' ^ delta)
                            for (ai, a) in slots.iter().enumerate() {
                                for (bi, b) in slots.iter().enumerate().filter(|(bi, _)| *bi > ai) {
                                    push(one(c, m.to, &m.label, m.k, What::TreeMulti(vec![TreeMut { path: vec![*a, 0], op: MutOp::XorDeltaOf(c) }, TreeMut { path: vec![*b, 0], op: MutOp::XorDeltaOf(c) }]), s ^ ((*a * 53 + *b) as u64)), format!("other-valid-label-on-two-wires:slots{ai}+{bi}"), &m.label, vec![m.to], true, None);
                                }
                            }
                        }
                        for (pi, i) in pick(&slots, thorough || ops_cfg).into_iter().enumerate() {
                            let pc = if ops_cfg { format!("slot{pi}") } else if pi == 0 { "first".to_string() } else { "later".to_string() };
                            push(one(c, m.to, &m.label, m.k, What::Tree(TreeMut { path: vec![i, 0], op: MutOp::FlipBit }), s ^ i as u64), format!("flip-label:{pc}"), &m.label, vec![m.to], false, None);
                            push(one(c, m.to, &m.label, m.k, What::Tree(TreeMut { path: vec![i, 0], op: MutOp::XorDeltaOf(c) }), s ^ i as u64), format!("other-valid-label:{pc}"), &m.label, vec![m.to], true, None);
                        }
                    }
                    "preprocessed gates" => {
                        if let Some(Val::Vec(gates)) = &m.tree {
                            let gi: Vec<usize> = (0..gates.len()).collect();
                            for (pi, g) in pick(&gi, thorough).into_iter().enumerate() {
                                let pc = if pi == 0 { "first" } else { "later" };
                                let row_len = match &gates[g] { Val::Arr(rows) => match &rows[0] { Val::Vec(b) => b.len(), _ => 0 }, _ => 0 };
                                if row_len < 17 { continue; }
                                for (bname, byte) in [("body-first", 0usize), ("body-mid", (row_len - 16) / 2), ("tag-first", row_len - 16), ("tag-last", row_len - 1)] {
                                    let ms: Vec<TreeMut> = (0..4).map(|r| TreeMut { path: vec![g, r, byte], op: MutOp::FlipBit }).collect();
                                    push(one(c, m.to, &m.label, m.k, What::TreeMulti(ms), s ^ ((g * 131 + byte) as u64)), format!("row-byte:{bname}:{pc}"), &m.label, vec![m.to], false, None);
                                }
                            }
                        }
                    }
                    "masked inputs" if m.to != cfg.p_eval && vec_none_slots(m).len() > 0 => {
                        // a claim for a register that is not an input wire: every garbler must refuse it
                        let nones = vec_none_slots(m);
                        for (pi, i) in [nones[0], nones[nones.len() - 1]].into_iter().enumerate() {
                            for (name, op) in [("true", MutOp::NoneToSomeOne), ("false", MutOp::NoneToSome)] {
                                // consistent towards every receiver (passes the verified broadcast)
                                let plan = FaultPlan { corrupt: c, actions: vec![FaultAction { target: Target { from: c, to: None, label: m.label.clone(), k: Some(m.k) }, what: What::Tree(TreeMut { path: vec![i], op: op.clone() }) }], crash: None, seed: s ^ (i as u64 * 7 + pi as u64) };
                                push(plan, format!("masked-input-claim-{name}-for-non-input-register"), &m.label, vec![m.to], false, None);
                            }
                        }
                        if n >= 3 {
                            let slots = some_slots(m);
                            for (pi, i) in pick(&slots, thorough).into_iter().enumerate() {
                                let pc = if pi == 0 { "first" } else { "later" };
                                push(one(c, m.to, &m.label, m.k, What::Tree(TreeMut { path: vec![i, 0], op: MutOp::FlipBit }), s ^ i as u64), format!("equivocate-masked-input:{pc}"), &m.label, vec![m.to], false, None);
                            }
                        }
                    }
                    "masked inputs" if n >= 3 => {
                        let slots = some_slots(m);
                        for (pi, i) in pick(&slots, thorough).into_iter().enumerate() {
                            let pc = if pi == 0 { "first" } else { "later" };
                            push(one(c, m.to, &m.label, m.k, What::Tree(TreeMut { path: vec![i, 0], op: MutOp::FlipBit }), s ^ i as u64), format!("equivocate-masked-input:{pc}"), &m.label, vec![m.to], false, None);
                        }
                    }
                    "broadcast masked inputs" => {
                        let slots = some_slots(m);
                        for i in pick(&slots, thorough) {
                            push(one(c, m.to, &m.label, m.k, What::Tree(TreeMut { path: vec![i, 0], op: MutOp::FlipBit }), s ^ i as u64), "echo-hash-flip".to_string(), &m.label, vec![m.to], false, None);
                        }
                    }
                    _ => {}
                }
            }
            // garbler encrypts a wrong share bit into every row (MACs untouched): only the
            // evaluator's MAC check can notice
            if c != cfg.p_eval && !cfg.name.ends_with("-ops") {
                let plan = FaultPlan { corrupt: c, actions: vec![], crash: None, seed: seed ^ 0x7a9 ^ ((ci as u64) << 40) ^ ((c as u64) << 32) };
                push(plan.clone(), "tap:garble.row_bit:all-rows".into(), "tap:garble.row_bit", vec![cfg.p_eval], false, Some(("garble.row_bit".into(), usize::MAX)));
                // the wrong share bit in the rows of ONE gate: the first, a middle and the last AND gate (a check
                // that is deferred or batched must still cover the tail of the circuit)
                {
                    use polytune::garble_lang::register_circuit::Op;
                    let and_ws: Vec<usize> = cfg.circ.insts.iter().enumerate().filter(|(_, i)| matches!(i.op, Op::And(_))).map(|(w, _)| w).collect();
                    if !and_ws.is_empty() {
                        let mut picks = vec![("first", and_ws[0]), ("last", and_ws[and_ws.len() - 1])];
                        if and_ws.len() > 2 { picks.push(("middle", and_ws[and_ws.len() / 2])); }
                        if and_ws.len() > 1000 { picks.push(("last-of-first-chunk", and_ws[999])); picks.push(("first-of-second-chunk", and_ws[1000])); }
                        for (pname, w) in picks {
                            let mut p3 = plan.clone();
                            p3.seed ^= h64(pname) ^ (w as u64);
                            push(p3, format!("tap:garble.row_bit:one-gate:{pname}"), "tap:garble.row_bit", vec![cfg.p_eval], false, Some(("garble.row_bit@gate".into(), w)));
                        }
                    }
                }
                // rows re-built by the garbler: bit flipped, label share shifted consistently, MAC list
                // complete / cut to one entry / empty
                if !cfg.name.ends_with("-big") {
                    for mode in ["allmacs", "onemac", "nomac"] {
                        let mut p2 = plan.clone();
                        p2.seed ^= h64(mode);
                        push(p2, format!("tap:garble.row_plain:rebuilt-row-{mode}"), "tap:garble.row_plain", vec![cfg.p_eval], true, Some((format!("garble.row_plain#{mode}"), usize::MAX)));
                    }
                }
            }
        }
    }
    cases
}

pub fn build(tier: &str, seed: u64) -> World {
    let mut w = World::with_extra(tier, seed, crate::faults::operand_configs(seed));
    w.cases = catalogue(&w, tier, seed, if tier == "thorough" { 3 } else { 2 });
    w
}

pub fn child(tier: &str, seed: u64, a: shard::ShardArgs) {
    build(tier, seed).child(a);
}

pub fn run(tier: &str, seed: u64) -> i32 {
    let mut rep = Report::new("C03", tier, seed, "fault_enumeration");
    rep.rule = "catalogue of forged authenticated online-phase fields: mask-share bit / MAC in 'wire shares' and 'output wire shares', input labels (random flip and the other valid label label^delta_c; every label of a circuit whose input wires are used only as first resp. only as second operand of AND gates), bytes of all four rows of a garbled gate (body and Poly1305 tag), a wrong share bit garbled into every row (tap) and rows re-built by the garbler with the bit flipped, the label share shifted consistently and the MAC list complete / cut to one entry / empty (tap on the serialized row before encryption), the evaluator's revealed value / label in 'lambda', masked inputs differing per recipient and altered echo hashes (n=3); per register position (first/mid/last quick, all thorough), corrupted role, victim role, n in {2,3}. Oracle: the honest recipient that consumes the field returns Err. distinct = (configuration, corrupted party, victim, label, forged field class); non-trivial = the forged field was delivered to the victim".into();
    rep.assumptions = vec!["consumption is decided by the generator: fault circuits route every input into an AND gate and an output; all four rows of a gate are altered at the same byte".into()];
    let w = build(tier, seed);
    let mut hist = std::collections::BTreeMap::new();
    let mut cnt = 0u64;
    w.drive("C03", tier, seed, &mut rep, |rep, fc, cfg, v| {
        let via = format!("label={} mut={}", fc.label, fc.class);
        if !faults::effective(fc, v) {
            rep.harness_error(format!("forged field was never delivered: {via} in {} c={}", cfg.name, fc.plan.corrupt));
            return;
        }
        let mut bad = false;
        let received: Vec<u64> = v["victims"].as_array().map(|a| a.iter().filter_map(|x| x["party"].as_u64()).collect()).unwrap_or_default();
        for h in &fc.expect_abort {
            if fc.tap.is_none() && !received.contains(&(*h as u64)) {
                rep.harness_error(format!("victim {h} never received the forged field: {via} in {}", cfg.name));
                continue;
            }
            let oc = v["outcomes"][*h].as_str().unwrap_or("?");
            *hist.entry(oc.to_string()).or_insert(0u64) += 1;
            rep.distinct.insert(format!("{}|c{}|v{}|{}|{}", cfg.name, fc.plan.corrupt, h, fc.label, fc.class));
            if oc == "Ok" {
                rep.violation(format!("victim completed normally on a forged value via {via}"), v.clone());
                bad = true;
            } else if !oc.starts_with("Err") {
                rep.violation(format!("victim did not return Err ({}) via {via}", oc.split('@').next().unwrap_or(oc)), v.clone());
                bad = true;
            }
        }
        cnt += 1;
        if !bad && cnt % 53 == 1 {
            rep.sample(v.clone());
        }
    });
    rep.set("victim_outcome_histogram", json!(hist));
    rep.finish()
}
