//! Circuit generators and the independent clear-text evaluator.
use polytune::garble_lang::register_circuit::{And, Circuit, Input, Inst, Not, Op, Reg, Xor};
use rand::Rng;

/// Independent clear-text evaluator (does not use `Circuit::eval`).
pub fn eval_clear(c: &Circuit, inputs: &[Vec<bool>]) -> Vec<bool> {
    let mut r = vec![false; c.max_reg_count];
    for i in &c.insts {
        let v = match i.op {
            Op::Input(Input { party, input }) => inputs[party as usize][input as usize],
            Op::Xor(Xor(a, b)) => r[a.0 as usize] != r[b.0 as usize],
            Op::And(And(a, b)) => r[a.0 as usize] && r[b.0 as usize],
            Op::Not(Not(a)) => !r[a.0 as usize],
        };
        r[i.out.0 as usize] = v;
    }
    c.output_regs.iter().map(|o| r[o.0 as usize]).collect()
}

#[derive(Clone, Debug)]
pub struct GenCfg {
    pub n: usize,
    /// inputs per party (len n); at least one > 0
    pub inputs: Vec<usize>,
    pub ands: usize,
    /// number of XOR/NOT gates sprinkled in
    pub others: usize,
    pub n_out: usize,
    /// probability (percent) of writing to an already used register
    pub reuse_pct: u32,
    /// extra registers beyond the inputs
    pub extra_regs: usize,
    pub shuffle_inputs: bool,
    /// force these features in
    pub feat_and_xx: bool,
    pub feat_xor_xx: bool,
    pub feat_not_chain: bool,
    pub feat_out_is_input: bool,
    pub feat_dup_out: bool,
}

impl GenCfg {
    pub fn features(&self) -> String {
        let mut f = vec![];
        if self.ands == 0 { f.push("and-free"); }
        if self.reuse_pct > 0 { f.push("reuse"); }
        if self.shuffle_inputs { f.push("shuffled-inputs"); }
        if self.feat_and_xx { f.push("x&x"); }
        if self.feat_xor_xx { f.push("x^x"); }
        if self.feat_not_chain { f.push("not-chain"); }
        if self.feat_out_is_input { f.push("out=input"); }
        if self.feat_dup_out { f.push("dup-out"); }
        if self.inputs.iter().any(|i| *i == 0) { f.push("zero-input-party"); }
        f.join(",")
    }
}

pub fn random_gen_cfg(rng: &mut impl Rng, n: usize, ands: usize) -> GenCfg {
    let mut inputs: Vec<usize> = (0..n).map(|_| rng.random_range(0..4)).collect();
    if inputs.iter().all(|i| *i == 0) {
        let p = rng.random_range(0..n);
        inputs[p] = rng.random_range(1..4);
    }
    GenCfg {
        n,
        inputs,
        ands,
        others: rng.random_range(0..(8 + ands / 4)),
        n_out: rng.random_range(1..5),
        reuse_pct: if rng.random_bool(0.6) { rng.random_range(10..70) } else { 0 },
        extra_regs: rng.random_range(1..(6 + ands / 8).max(2)),
        shuffle_inputs: rng.random_bool(0.2),
        feat_and_xx: rng.random_bool(0.3) && ands > 0,
        feat_xor_xx: rng.random_bool(0.3),
        feat_not_chain: rng.random_bool(0.3),
        feat_out_is_input: rng.random_bool(0.3),
        feat_dup_out: rng.random_bool(0.3),
    }
}

/// Generates a register circuit that passes `Circuit::validate()`.
pub fn gen_circuit(rng: &mut impl Rng, cfg: &GenCfg) -> Circuit {
    let total_in: usize = cfg.inputs.iter().sum();
    let mut insts = vec![];
    let mut order: Vec<(u32, u32)> = vec![];
    for (p, k) in cfg.inputs.iter().enumerate() {
        for i in 0..*k {
            order.push((p as u32, i as u32));
        }
    }
    if cfg.shuffle_inputs {
        for i in (1..order.len()).rev() {
            let j = rng.random_range(0..=i);
            order.swap(i, j);
        }
    }
    for (w, (p, i)) in order.iter().enumerate() {
        insts.push(Inst { out: Reg(w as u32), op: Op::Input(Input { party: *p, input: *i }) });
    }
    let max_reg_count = total_in + cfg.extra_regs.max(1);
    let mut set: Vec<u32> = (0..total_in as u32).collect(); // registers holding a value
    let mut is_set = vec![false; max_reg_count];
    for r in &set { is_set[*r as usize] = true; }
    let mut next_fresh = total_in;
    let mut gates: Vec<u8> = vec![]; // 0 = and, 1 = xor, 2 = not
    gates.extend(std::iter::repeat_n(0u8, cfg.ands));
    for _ in 0..cfg.others {
        gates.push(if rng.random_bool(0.6) { 1 } else { 2 });
    }
    for i in (1..gates.len()).rev() {
        let j = rng.random_range(0..=i);
        gates.swap(i, j);
    }
    let mut forced_and_xx = cfg.feat_and_xx;
    let mut forced_xor_xx = cfg.feat_xor_xx;
    let mut pick_out = |rng: &mut dyn rand::RngCore, set: &mut Vec<u32>, is_set: &mut Vec<bool>, next_fresh: &mut usize| -> u32 {
        let reuse = *next_fresh >= max_reg_count || (cfg.reuse_pct > 0 && rng.random_range(0..100) < cfg.reuse_pct);
        if reuse {
            rng.random_range(0..max_reg_count.min((*next_fresh).max(1))) as u32
        } else {
            let r = *next_fresh as u32;
            *next_fresh += 1;
            let _ = (&set, &is_set);
            r
        }
    };
    for g in gates {
        let a = set[rng.random_range(0..set.len())];
        let mut b = set[rng.random_range(0..set.len())];
        let out = pick_out(rng, &mut set, &mut is_set, &mut next_fresh);
        let op = match g {
            0 => {
                if forced_and_xx { b = a; forced_and_xx = false; }
                Op::And(And(Reg(a), Reg(b)))
            }
            1 => {
                if forced_xor_xx { b = a; forced_xor_xx = false; }
                Op::Xor(Xor(Reg(a), Reg(b)))
            }
            _ => Op::Not(Not(Reg(a))),
        };
        insts.push(Inst { out: Reg(out), op });
        if !is_set[out as usize] {
            is_set[out as usize] = true;
            set.push(out);
        }
    }
    if cfg.feat_not_chain {
        let mut a = set[rng.random_range(0..set.len())];
        for _ in 0..rng.random_range(2..5) {
            let out = pick_out(rng, &mut set, &mut is_set, &mut next_fresh);
            insts.push(Inst { out: Reg(out), op: Op::Not(Not(Reg(a))) });
            if !is_set[out as usize] { is_set[out as usize] = true; set.push(out); }
            a = out;
        }
    }
    let mut output_regs: Vec<Reg> = (0..cfg.n_out.max(1)).map(|_| Reg(set[rng.random_range(0..set.len())])).collect();
    // prefer late registers for at least one output so that gates matter
    if let Some(last) = insts.last() { output_regs[0] = last.out; }
    if cfg.feat_out_is_input && total_in > 0 {
        output_regs.push(Reg(rng.random_range(0..total_in) as u32));
    }
    if cfg.feat_dup_out {
        let d = output_regs[rng.random_range(0..output_regs.len())];
        output_regs.push(d);
    }
    Circuit { input_regs: cfg.inputs.clone(), insts, max_reg_count, output_regs, and_ops: cfg.ands }
}

pub fn random_inputs(rng: &mut impl Rng, c: &Circuit) -> Vec<Vec<bool>> {
    c.input_regs.iter().map(|k| (0..*k).map(|_| rng.random()).collect()).collect()
}

/// Simple helper to hand-build circuits.
pub struct Builder {
    pub inputs: Vec<usize>,
    pub insts: Vec<Inst>,
    pub next: u32,
    pub ands: usize,
}

impl Builder {
    /// inputs are laid out party after party: register of (p, i) = offset(p) + i
    pub fn new(inputs: &[usize]) -> Self {
        let mut insts = vec![];
        let mut w = 0u32;
        for (p, k) in inputs.iter().enumerate() {
            for i in 0..*k {
                insts.push(Inst { out: Reg(w), op: Op::Input(Input { party: p as u32, input: i as u32 }) });
                w += 1;
            }
        }
        Builder { inputs: inputs.to_vec(), insts, next: w, ands: 0 }
    }
    pub fn input(&self, p: usize, i: usize) -> Reg {
        Reg((self.inputs[..p].iter().sum::<usize>() + i) as u32)
    }
    fn fresh(&mut self) -> Reg {
        let r = Reg(self.next);
        self.next += 1;
        r
    }
    pub fn and(&mut self, a: Reg, b: Reg) -> Reg {
        let o = self.fresh();
        self.insts.push(Inst { out: o, op: Op::And(And(a, b)) });
        self.ands += 1;
        o
    }
    pub fn xor(&mut self, a: Reg, b: Reg) -> Reg {
        let o = self.fresh();
        self.insts.push(Inst { out: o, op: Op::Xor(Xor(a, b)) });
        o
    }
    pub fn not(&mut self, a: Reg) -> Reg {
        let o = self.fresh();
        self.insts.push(Inst { out: o, op: Op::Not(Not(a)) });
        o
    }
    pub fn finish(self, outs: Vec<Reg>) -> Circuit {
        Circuit { input_regs: self.inputs, insts: self.insts, max_reg_count: self.next as usize, output_regs: outs, and_ops: self.ands }
    }
}

pub fn circ_summary(c: &Circuit) -> String {
    format!(
        "inputs={:?} insts={} ands={} regs={} outs={:?}",
        c.input_regs,
        c.insts.len(),
        c.and_ops,
        c.max_reg_count,
        c.output_regs.iter().map(|r| r.0).collect::<Vec<_>>()
    )
}

pub fn circ_to_json(c: &Circuit) -> serde_json::Value {
    let insts: Vec<String> = c
        .insts
        .iter()
        .map(|i| match i.op {
            Op::Input(Input { party, input }) => format!("r{}=in({},{})", i.out.0, party, input),
            Op::Xor(Xor(a, b)) => format!("r{}=r{}^r{}", i.out.0, a.0, b.0),
            Op::And(And(a, b)) => format!("r{}=r{}&r{}", i.out.0, a.0, b.0),
            Op::Not(Not(a)) => format!("r{}=!r{}", i.out.0, a.0),
        })
        .collect();
    let shown: Vec<String> = if insts.len() > 60 {
        let mut v: Vec<String> = insts[..30].to_vec();
        v.push(format!("... {} more ...", insts.len() - 40));
        v.extend_from_slice(&insts[insts.len() - 10..]);
        v
    } else {
        insts
    };
    serde_json::json!({
        "input_regs": c.input_regs,
        "insts": shown,
        "max_reg_count": c.max_reg_count,
        "output_regs": c.output_regs.iter().map(|r| r.0).collect::<Vec<_>>(),
        "and_ops": c.and_ops,
    })
}
