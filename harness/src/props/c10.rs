//! C10 - preprocessing outputs satisfy the authenticated-share and AND-triple relations.
use rand::{Rng, SeedableRng};
use rand_chacha::ChaCha8Rng;
use serde_json::{Value, json};

use crate::circ;
use crate::codec::{self, Sch, Val};
use crate::hooks::pv::{self, Pre, VShare};
use crate::report::Report;
use crate::runner::{parallel_for, threads};
use crate::sim::{self, Outcome, PartyFut, RunEnd, SchedKind, SimCfg, SimChan};

struct PartyRes {
    delta: u128,
    shares: Vec<VShare>,
    ab: Vec<(VShare, VShare)>,
    z: Vec<VShare>,
    multi: Vec<u32>,
    pair: Vec<Option<Vec<u32>>>,
}

fn xor_share(a: &VShare, b: &VShare) -> VShare {
    VShare { bit: a.bit ^ b.bit, macs: a.macs.iter().zip(&b.macs).map(|(x, y)| x ^ y).collect(), keys: a.keys.iter().zip(&b.keys).map(|(x, y)| x ^ y).collect() }
}

/// MAC relation between the views of all parties for the share at `get(party)`.
fn mac_relation(n: usize, deltas: &[u128], get: &dyn Fn(usize) -> VShare) -> Option<String> {
    let views: Vec<VShare> = (0..n).map(get).collect();
    for i in 0..n {
        if views[i].macs.len() != n || views[i].keys.len() != n {
            return Some("share does not carry one (MAC, key) pair per party".into());
        }
    }
    for i in 0..n {
        for j in 0..n {
            if i != j && views[i].macs[j] != views[j].keys[i] ^ if views[i].bit { deltas[j] } else { 0 } {
                return Some("MAC held by i differs from key held by j ^ (bit of i & global key of j)".into());
            }
        }
    }
    None
}

struct Out {
    key: String,
    end: RunEnd,
    sig: Option<String>,
    sample: Value,
    relations: u64,
}

fn distributed(i: usize, seed: u64, thorough: bool) -> Out {
    let mut rng = ChaCha8Rng::seed_from_u64(seed ^ 0xc10 ^ (i as u64).wrapping_mul(0x9e3779b97f4a7c15));
    let n = 2 + i % 4;
    let lens_small = [1usize, 2, 7, 63, 64, 65, 127, 128, 129];
    let lens_big = [1000usize, 3099, 3100, 5000];
    let l_and = if n == 2 && (i == 0 || (thorough && i == 8)) {
        280_000 + i // bucket size 3
    } else if n == 3 && thorough && i == 1 {
        280_001
    } else if n == 2 && i % 8 == 0 { lens_big[(i / 8) % if thorough { 4 } else { 3 }] } else if n == 3 && i % 23 == 1 && thorough { 1000 } else if n <= 3 { lens_small[(i / 4) % lens_small.len()] } else { [1usize, 2, 7, 33][(i / 4) % 4] };
    let l_rand = l_and.min(200) + rng.random_range(1..8);
    let combo_seed: u64 = rng.random();
    let (net, chans) = SimChan::new_set(n, None);
    net.lock().unwrap().keep_bytes = false;
    let deltas: Vec<u128> = (0..n).map(|_| rng.random()).collect();
    let res = {
        let mut futs: Vec<PartyFut<'_, Result<PartyRes, String>>> = vec![];
        for p in 0..n {
            let ch = &chans[p];
            let delta = deltas[p];
            futs.push(Box::pin(async move {
                let mut pre = Pre::setup(ch, p, n, delta).await?;
                let multi = pre.multi_words(64);
                let pair: Vec<Option<Vec<u32>>> = (0..n).map(|k| if k == p { None } else { pre.pair_words(k, 64) }).collect();
                let shares = pre.fashare(ch, l_rand).await?;
                // left / right shares: public random linear combinations of the fresh shares,
                // incl. all-zero (x ^ x) and equal left/right
                let mut crng = ChaCha8Rng::seed_from_u64(combo_seed);
                let mut ab = vec![];
                for j in 0..l_and {
                    let pick = |crng: &mut ChaCha8Rng| -> VShare {
                        let a = &shares[crng.random_range(0..shares.len())];
                        match crng.random_range(0..4) {
                            0 => a.clone(),
                            1 => xor_share(a, a),
                            _ => xor_share(a, &shares[crng.random_range(0..shares.len())]),
                        }
                    };
                    let a = pick(&mut crng);
                    let b = if j % 5 == 0 { a.clone() } else { pick(&mut crng) };
                    ab.push((a, b));
                }
                let z = pre.beaver_aand(ch, &ab).await?;
                Ok(PartyRes { delta, shares, ab, z, multi, pair })
            }));
        }
        sim::run(&net, futs, &SimCfg { sched: SchedKind::RoundRobin, seed: 0, max_steps: 200_000_000 })
    };
    let b = pv::bucket_size(l_and);
    let key = format!("distributed n={n} l={} bucket={b}", if l_and <= 129 { l_and.to_string() } else { format!("{l_and}") });
    let mut sig = None;
    let mut relations = 0u64;
    let views: Vec<&PartyRes> = res.outcomes.iter().filter_map(|o| if let Outcome::Done(Ok(r)) = o { Some(r) } else { None }).collect();
    if views.len() != n {
        let d: Vec<String> = res.outcomes.iter().map(|o| match o { Outcome::Done(Ok(_)) => "Ok".into(), Outcome::Done(Err(e)) => format!("Err:{}", crate::props::err_class(e)), Outcome::Panic(_, l) => format!("Panic@{l}"), _ => "Unfinished".into() }).collect();
        if matches!(res.end, RunEnd::AllFinished | RunEnd::Stuck) {
            sig = Some(format!("honest preprocessing did not complete: {}", d.join(" / ")));
        }
    } else {
        let ds: Vec<u128> = views.iter().map(|v| v.delta).collect();
        for s in 0..l_rand {
            relations += 1;
            if views.iter().any(|v| v.shares.len() != l_rand) {
                sig = Some("fashare returned the wrong number of shares".into());
                break;
            }
            if let Some(e) = mac_relation(n, &ds, &|p| views[p].shares[s].clone()) {
                sig = Some(format!("random share: {e}"));
                break;
            }
        }
        if sig.is_none() {
            if views.iter().any(|v| v.z.len() != l_and) {
                sig = Some("beaver_aand returned the wrong number of AND shares".into());
            }
            for j in 0..l_and {
                if sig.is_some() { break; }
                relations += 1;
                if let Some(e) = mac_relation(n, &ds, &|p| views[p].z[j].clone()) {
                    sig = Some(format!("AND share: {e}"));
                    break;
                }
                let a = views.iter().fold(false, |x, v| x ^ v.ab[j].0.bit);
                let bb = views.iter().fold(false, |x, v| x ^ v.ab[j].1.bit);
                let z = views.iter().fold(false, |x, v| x ^ v.z[j].bit);
                if z != (a & bb) {
                    sig = Some(format!("AND shares do not XOR to the AND of the XORs of the inputs (bucket size {b})"));
                    break;
                }
            }
        }
        if sig.is_none() {
            for p in 1..n {
                if views[p].multi != views[0].multi {
                    sig = Some("parties derived different multi-party coins".into());
                }
            }
            let mut streams: Vec<&Vec<u32>> = vec![];
            for a in 0..n {
                for bq in (a + 1)..n {
                    match (&views[a].pair[bq], &views[bq].pair[a]) {
                        (Some(x), Some(y)) if x == y => streams.push(x),
                        _ => sig = Some("pairwise coins differ between the two parties of a pair".into()),
                    }
                }
            }
            for x in 0..streams.len() {
                for y in (x + 1)..streams.len() {
                    if streams[x] == streams[y] {
                        sig = Some("two different pairs share the same pairwise coins".into());
                    }
                }
            }
            if streams.iter().any(|s| **s == views[0].multi) {
                sig = Some("pairwise coins equal the multi-party coins".into());
            }
        }
    }
    let sample = json!({"provider": "distributed", "n": n, "random_shares": l_rand, "and_triples": l_and, "bucket_size": b, "relations_checked": relations, "end": format!("{:?}", res.end)});
    Out { key, end: res.end, sig, sample, relations }
}

// ---- a faulty participant equivocating in the multi-party coin toss ---------------------------------

/// Channel of the faulty party: runs the honest code, but towards the parties in `victims` the
/// contribution to the multi-party coin toss (commitment and matching opening) is a different seed.
struct EquivChan<'a> {
    inner: &'a SimChan,
    me: usize,
    victims: Vec<usize>,
    alt_seed: [u8; 32],
    comm_too: bool,
    sent: std::cell::RefCell<std::collections::HashMap<(usize, String), usize>>,
    rewritten: std::cell::Cell<usize>,
}

impl polytune::channel::Channel for EquivChan<'_> {
    type SendError = <SimChan as polytune::channel::Channel>::SendError;
    type RecvError = <SimChan as polytune::channel::Channel>::RecvError;

    async fn send_bytes_to(&self, party: usize, mut data: Vec<u8>, phase: &str) -> Result<(), Self::SendError> {
        let k = {
            let mut m = self.sent.borrow_mut();
            let e = m.entry((party, phase.to_string())).or_insert(0);
            *e += 1;
            *e - 1
        };
        // occurrence 0 of each label belongs to the pairwise toss, occurrence 1 to the multi-party toss
        if self.victims.contains(&party) && k == 1 && data.len() == 40 {
            if phase == "RNG comm" && self.comm_too {
                let mut v = [0u8; 34];
                v[..32].copy_from_slice(&self.alt_seed);
                v[32..].copy_from_slice(&(self.me as u16).to_be_bytes());
                data[8..].copy_from_slice(blake3::hash(&v).as_bytes());
                self.rewritten.set(self.rewritten.get() + 1);
            } else if phase == "RNG ver" {
                data[8..].copy_from_slice(&self.alt_seed);
                self.rewritten.set(self.rewritten.get() + 1);
            }
        }
        self.inner.send_bytes_to(party, data, phase).await
    }

    async fn recv_bytes_from(&self, party: usize, phase: &str) -> Result<Vec<u8>, Self::RecvError> {
        self.inner.recv_bytes_from(party, phase).await
    }
}

fn equivocation(i: usize, seed: u64) -> Out {
    let mut rng = ChaCha8Rng::seed_from_u64(seed ^ 0xe9c10 ^ (i as u64).wrapping_mul(0x9e3779b97f4a7c15));
    let n = 3 + i % 3;
    let c = rng.random_range(0..n);
    let honest: Vec<usize> = (0..n).filter(|p| *p != c).collect();
    let n_vic = 1 + (i / 3) % (honest.len() - 1);
    let mut victims = honest.clone();
    while victims.len() > n_vic {
        victims.remove(rng.random_range(0..victims.len()));
    }
    let comm_too = i % 4 != 3;
    let alt_seed: [u8; 32] = rng.random();
    let (net, chans) = SimChan::new_set(n, None);
    let sched = if i % 2 == 0 { SchedKind::RoundRobin } else { SchedKind::Random };
    let ech = EquivChan { inner: &chans[c], me: c, victims: victims.clone(), alt_seed, comm_too, sent: Default::default(), rewritten: Default::default() };
    let res = {
        let mut futs: Vec<PartyFut<'_, Result<Vec<u32>, String>>> = vec![];
        for p in 0..n {
            let ch = &chans[p];
            let ech = &ech;
            futs.push(Box::pin(async move {
                let pre = if p == c { Pre::setup(ech, p, n, 1).await? } else { Pre::setup(ch, p, n, 1).await? };
                Ok(pre.multi_words(64))
            }));
        }
        sim::run(&net, futs, &SimCfg { sched, seed: seed ^ i as u64, max_steps: 10_000_000 })
    };
    let mut sig = None;
    let done: Vec<(usize, &Vec<u32>)> = honest.iter().filter_map(|p| if let Outcome::Done(Ok(w)) = &res.outcomes[*p] { Some((*p, w)) } else { None }).collect();
    for w in done.windows(2) {
        if w[0].1 != w[1].1 {
            sig = Some(format!("two honest parties completed the multi-party coin toss with different coins ({})", if comm_too { "faulty party equivocated on commitment and opening" } else { "faulty party equivocated on the opening" }));
        }
    }
    for p in &honest {
        if let Outcome::Panic(_, l) = &res.outcomes[*p] {
            sig = Some(format!("honest party panicked at {l} during the coin toss with an equivocating party"));
        }
    }
    let d: Vec<String> = res.outcomes.iter().map(|o| match o { Outcome::Done(Ok(_)) => "Ok".into(), Outcome::Done(Err(e)) => format!("Err:{}", crate::props::err_class(e)), Outcome::Panic(_, l) => format!("Panic@{l}"), _ => "Unfinished".into() }).collect();
    let delivered = ech.rewritten.get();
    let sample = json!({"provider": "distributed, one faulty party equivocates in the multi-party coin toss", "n": n, "faulty": c, "different_seed_towards": victims, "commitment_rewritten_too": comm_too, "messages_rewritten": delivered, "outcomes": d, "honest_completed": done.len()});
    let end = if delivered == 0 { RunEnd::HarnessError("equivocation case: no coin-toss message was rewritten".into()) } else { res.end };
    Out { key: format!("equivocating coin toss n={n} victims={n_vic} comm_too={comm_too}"), end, sig, sample, relations: done.len().saturating_sub(1) as u64 }
}

// ---- trusted dealer -------------------------------------------------------------------------------

fn share_schema() -> Sch {
    Sch::Tuple(vec![Sch::Bool, Sch::Vec(Box::new(Sch::Tuple(vec![Sch::U128, Sch::U128])))])
}

fn to_vshare(v: &Val) -> Option<VShare> {
    let Val::Tuple(t) = v else { return None };
    let Val::Bool(b) = t[0] else { return None };
    let Val::Vec(auth) = &t[1] else { return None };
    let mut macs = vec![];
    let mut keys = vec![];
    for a in auth {
        let Val::Tuple(mk) = a else { return None };
        let (Val::U128(m), Val::U128(k)) = (&mk[0], &mk[1]) else { return None };
        macs.push(*m);
        keys.push(*k);
    }
    Some(VShare { bit: b != 0, macs, keys })
}

fn from_vshare(s: &VShare) -> Val {
    Val::Tuple(vec![Val::Bool(s.bit as u8), Val::Vec(s.macs.iter().zip(&s.keys).map(|(m, k)| Val::Tuple(vec![Val::U128(*m), Val::U128(*k)])).collect())])
}

enum DealerOut {
    Dealer(Result<(), String>),
    Client(Result<PartyRes, String>),
    Mpc(Result<Vec<bool>, String>),
}

fn dealer_direct(i: usize, seed: u64) -> Out {
    use polytune::channel::Channel;
    let mut rng = ChaCha8Rng::seed_from_u64(seed ^ 0xdea1 ^ (i as u64).wrapping_mul(0x9e3779b97f4a7c15));
    let n = 2 + i % 4;
    let k = [1usize, 3, 17, 64][(i / 4) % 4];
    let l_and = [1usize, 2, 9][(i / 16) % 3];
    let combo_seed: u64 = rng.random();
    // every third session: one party hands in an AND operand whose bit is flipped while its MACs are
    // left alone (the value the other parties' keys authenticate is the original one)
    let cheat: Option<(usize, usize, usize)> = if i % 3 == 2 { Some(((i / 3) % n, (i / 7) % 2, (i / 11) % l_and)) } else { None };
    let (net, chans) = SimChan::new_set(n + 1, None);
    let res = {
        let mut futs: Vec<PartyFut<'_, DealerOut>> = vec![];
        for p in 0..n {
            let ch = &chans[p];
            futs.push(Box::pin(async move {
                let r: Result<PartyRes, String> = async {
                    let e = |x: sim::ChanErr| format!("{x:?}");
                    ch.send_bytes_to(n, codec::to_bytes(&Val::Vec(vec![])), "delta").await.map_err(e)?;
                    let d = ch.recv_bytes_from(n, "delta").await.map_err(e)?;
                    let Some(Val::Vec(dv)) = codec::decode_all(&Sch::Vec(Box::new(Sch::U128)), &d) else { return Err("delta does not decode".into()) };
                    let Some(Val::U128(delta)) = dv.first().cloned() else { return Err("empty delta".into()) };
                    ch.send_bytes_to(n, codec::to_bytes(&Val::Vec(vec![Val::U32(k as u32)])), "random shares").await.map_err(e)?;
                    let s = ch.recv_bytes_from(n, "random shares").await.map_err(e)?;
                    let Some(Val::Vec(sv)) = codec::decode_all(&Sch::Vec(Box::new(share_schema())), &s) else { return Err("random shares do not decode".into()) };
                    let shares: Vec<VShare> = sv.iter().filter_map(to_vshare).collect();
                    let mut crng = ChaCha8Rng::seed_from_u64(combo_seed);
                    let mut ab = vec![];
                    for _ in 0..l_and {
                        let a = shares[crng.random_range(0..shares.len())].clone();
                        let b = xor_share(&shares[crng.random_range(0..shares.len())], &shares[crng.random_range(0..shares.len())]);
                        ab.push((a, b));
                    }
                    let mut sent = ab.clone();
                    if let Some((cp, which, t)) = cheat {
                        if cp == p {
                            if which == 0 { sent[t].0.bit ^= true } else { sent[t].1.bit ^= true }
                        }
                    }
                    let msg = Val::Vec(sent.iter().map(|(a, b)| Val::Tuple(vec![from_vshare(a), from_vshare(b)])).collect());
                    ch.send_bytes_to(n, codec::to_bytes(&msg), "AND shares").await.map_err(e)?;
                    let z = ch.recv_bytes_from(n, "AND shares").await.map_err(e)?;
                    let Some(Val::Vec(zv)) = codec::decode_all(&Sch::Vec(Box::new(share_schema())), &z) else { return Err("AND shares do not decode".into()) };
                    Ok(PartyRes { delta, shares, ab, z: zv.iter().filter_map(to_vshare).collect(), multi: vec![], pair: vec![] })
                }
                .await;
                DealerOut::Client(r)
            }));
        }
        let dch = &chans[n];
        futs.push(Box::pin(async move { DealerOut::Dealer(pv::fpre(dch, n).await) }));
        sim::run(&net, futs, &SimCfg::default())
    };
    let mut sig = None;
    let mut relations = 0;
    let views: Vec<&PartyRes> = res.outcomes.iter().filter_map(|o| if let Outcome::Done(DealerOut::Client(Ok(r))) = o { Some(r) } else { None }).collect();
    let dealer_ok = matches!(res.outcomes.last(), Some(Outcome::Done(DealerOut::Dealer(Ok(())))));
    if cheat.is_some() && (views.len() != n || !dealer_ok) {
        // the dealer refused the unauthenticated operand: nothing to judge
    } else if views.len() != n || !dealer_ok {
        if matches!(res.end, RunEnd::AllFinished | RunEnd::Stuck) {
            let d: Vec<String> = res.outcomes.iter().map(|o| match o {
                Outcome::Done(DealerOut::Client(Ok(_))) | Outcome::Done(DealerOut::Dealer(Ok(()))) | Outcome::Done(DealerOut::Mpc(Ok(_))) => "Ok".to_string(),
                Outcome::Done(DealerOut::Client(Err(e))) | Outcome::Done(DealerOut::Dealer(Err(e))) | Outcome::Done(DealerOut::Mpc(Err(e))) => format!("Err:{}", crate::props::err_class(e)),
                Outcome::Panic(_, l) => format!("Panic@{l}"),
                _ => "Unfinished".into(),
            }).collect();
            sig = Some(format!("trusted-dealer preprocessing with honest parties did not complete: {}", d.join(" / ")));
        }
    } else {
        let ds: Vec<u128> = views.iter().map(|v| v.delta).collect();
        for s in 0..k {
            relations += 1;
            if views.iter().any(|v| v.shares.len() != k) { sig = Some("dealer returned the wrong number of random shares".into()); break; }
            if let Some(e) = mac_relation(n, &ds, &|p| views[p].shares[s].clone()) { sig = Some(format!("dealer random share: {e}")); break; }
        }
        for j in 0..l_and {
            if sig.is_some() { break; }
            relations += 1;
            if views.iter().any(|v| v.z.len() != l_and) { sig = Some("dealer returned the wrong number of AND shares".into()); break; }
            if let Some(e) = mac_relation(n, &ds, &|p| views[p].z[j].clone()) { sig = Some(format!("dealer AND share: {e}")); break; }
            let a = views.iter().fold(false, |x, v| x ^ v.ab[j].0.bit);
            let b = views.iter().fold(false, |x, v| x ^ v.ab[j].1.bit);
            let z = views.iter().fold(false, |x, v| x ^ v.z[j].bit);
            if z != (a & b) {
                sig = Some(if cheat.is_some() { "dealer accepted an AND operand whose bit is not the one its MACs authenticate: the AND shares do not XOR to the AND of the authenticated values".to_string() } else { "dealer AND shares do not XOR to the AND of the XORs of the inputs".to_string() });
                break;
            }
        }
    }
    let sample = json!({"provider": "trusted dealer (direct)", "n": n, "random_shares": k, "and_triples": l_and, "relations_checked": relations});
    Out { key: format!("dealer-direct n={n} k={k} l={l_and}{}", match cheat { Some((cp, w, _)) => format!(" unauthenticated-operand(party={cp},operand={w})"), None => String::new() }), end: res.end, sig, sample, relations }
}

fn dealer_mpc(i: usize, seed: u64) -> Out {
    let mut rng = ChaCha8Rng::seed_from_u64(seed ^ 0xdea2 ^ (i as u64).wrapping_mul(0x9e3779b97f4a7c15));
    let n = 2 + i % 3;
    let ands = [0usize, 1, 3, 8][(i / 3) % 4];
    let cfg = circ::random_gen_cfg(&mut rng, n, ands);
    let c = circ::gen_circuit(&mut rng, &cfg);
    let inputs = circ::random_inputs(&mut rng, &c);
    let p_eval = rng.random_range(0..n);
    let p_out: Vec<usize> = (0..n).collect();
    let expected = circ::eval_clear(&c, &inputs);
    let (net, chans) = SimChan::new_set(n + 1, None);
    let res = {
        let mut futs: Vec<PartyFut<'_, DealerOut>> = vec![];
        for p in 0..n {
            let (ch, c, inp, p_out) = (&chans[p], &c, &inputs[p], &p_out);
            futs.push(Box::pin(async move { DealerOut::Mpc(pv::mpc_trusted_dealer(ch, c, inp, n, p_eval, p, p_out, None).await.map_err(|e| format!("{e:?}"))) }));
        }
        let dch = &chans[n];
        futs.push(Box::pin(async move { DealerOut::Dealer(pv::fpre(dch, n).await) }));
        sim::run(&net, futs, &SimCfg::default())
    };
    let mut sig = None;
    for p in 0..n {
        match &res.outcomes[p] {
            Outcome::Done(DealerOut::Mpc(Ok(v))) if *v == expected => {}
            Outcome::Done(DealerOut::Mpc(Ok(_))) => sig = Some("mpc with the trusted dealer returned a wrong value".to_string()),
            Outcome::Done(DealerOut::Mpc(Err(e))) => sig = Some(format!("mpc with the trusted dealer failed in an honest run: Err:{}", crate::props::err_class(e))),
            Outcome::Panic(_, l) => sig = Some(format!("mpc with the trusted dealer panicked at {l}")),
            _ => { if matches!(res.end, RunEnd::Stuck) { sig = Some("mpc with the trusted dealer is stuck".into()) } }
        }
    }
    let sample = json!({"provider": "trusted dealer (mpc)", "n": n, "circuit": circ::circ_summary(&c), "expected": crate::report::bits(&expected)});
    Out { key: format!("dealer-mpc n={n} ands={ands} E={p_eval}"), end: res.end, sig, sample, relations: 1 }
}

pub fn run(tier: &str, seed: u64) -> i32 {
    let thorough = tier == "thorough";
    let mut rep = Report::new("C10", tier, seed, "exploration");
    rep.rule = "distributed preprocessing through the wrappers (coin tosses, fashare, beaver_aand as gen_auth_bits calls them) for n=2..5 and batch lengths {1,2,7,63,64,65,127,128,129} (n<=3), {1000,3099,3100(,5000)} and 280000 (n=2: bucket sizes 5, 4 and 3), left/right shares = public random linear combinations of fresh shares incl. all-zero and equal left/right; trusted dealer: a harness client speaks the dealer protocol directly (n=2..5) and mpc with the dealer is compared with the clear-text evaluator; in every third dealer session one party (every index) hands in an AND operand with a flipped bit and untouched MACs: the dealer refuses, or the AND shares still XOR to the AND of the authenticated values. Oracle: for every share and ordered pair (i,j) MAC_i[j] == key_j[i] ^ (bit_i & delta_j); XOR z == (XOR a) & (XOR b); multi-party coins equal at all parties, pairwise coins equal within and different across pairs; with one faulty party (n=3..5) that gives a different coin-toss contribution (commitment and matching opening, or opening only) to some honest parties, all honest parties that complete the coin toss hold identical coins. distinct = (provider, n, batch length class); every case is non-trivial".into();
    rep.assumptions = vec!["bucket size 3 (>= 280000 triples per batch) is exercised once for n=2 in quick, and for n=2 and n=3 in thorough".into()];
    let n_dist = if thorough { 960 } else { 320 };
    let n_dd = if thorough { 640 } else { 192 };
    let n_dm = if thorough { 480 } else { 120 };
    let huge = thorough && std::env::var("PV_C10_HUGE").is_ok();
    let n_eq = if thorough { 1200 } else { 240 };
    let total = n_dist + n_dd + n_dm + n_eq;
    let outs = parallel_for(total, threads(), |i| {
        if i < n_dist { distributed(i, seed, thorough) } else if i < n_dist + n_dd { dealer_direct(i - n_dist, seed) } else if i < n_dist + n_dd + n_dm { dealer_mpc(i - n_dist - n_dd, seed) } else { equivocation(i - n_dist - n_dd - n_dm, seed) }
    });
    let _ = huge;
    for o in outs {
        rep.evaluations += 1;
        match &o.end {
            RunEnd::HarnessError(e) => { rep.harness_error(e.clone()); continue; }
            RunEnd::StepLimit => { rep.inconclusive("step limit"); continue; }
            _ => {}
        }
        rep.distinct.insert(o.key.clone());
        rep.add("relations_checked", o.relations);
        match o.sig {
            Some(s) => rep.violation(s, o.sample),
            None => { if rep.evaluations % 41 == 1 { rep.sample(o.sample) } }
        }
    }
    rep.finish()
}
