//! C12 - result independent of message scheduling; no deadlock on 1-slot channels.
use rand::{Rng, SeedableRng};
use rand_chacha::ChaCha8Rng;
use serde_json::{Value, json};

use crate::circ;
use crate::report::{Report, bits};
use crate::runner::{Case, exec_mpc, outcome_str, parallel_for, threads};
use crate::sim::{Outcome, RunEnd, SchedKind};

struct Out {
    key: String,
    end: RunEnd,
    ok: bool,
    sig: Option<String>,
    sample: Value,
    sched_hash: u64,
    ilv_hash: u64,
    steps: u64,
    max_out: (u32, u32),
}

fn one(i: usize, seed: u64, thorough: bool, big: Option<usize>) -> Out {
    let mut rng = ChaCha8Rng::seed_from_u64(seed ^ 0xc12 ^ (i as u64).wrapping_mul(0x9e3779b97f4a7c15));
    let n = 2 + (i / 7) % 3;
    let ands = if i % 97 == 96 { 1100 } else if i % 193 == 100 || (thorough && i % 211 == 210) { 2100 + (i % 3) * 1000 } else { [0usize, 1, 2, 3, 5][i % 5] };
    let mut cfg = circ::random_gen_cfg(&mut rng, n, ands);
    if ands > 500 { cfg.others = 40; cfg.extra_regs = 24; cfg.reuse_pct = 50; }
    let (n, c) = match big {
        None => (n, circ::gen_circuit(&mut rng, &cfg)),
        Some(j) => {
            // single messages above 1 MiB: j even = ~60000 output registers ('output wire shares'),
            // j odd = ~60000 input bits of one party ('wire shares', 'labels', 'masked inputs')
            let n = 2 + (j / 2) % 2;
            let wide = 60_000 + 1000 * (j % 5);
            let ins: Vec<usize> = (0..n).map(|p| if j % 2 == 1 && p == (j / 4) % n { wide } else { 2 }).collect();
            let mut b = circ::Builder::new(&ins);
            let mut outs = vec![];
            let a0 = b.and(b.input(0, 0), b.input(1, 1));
            let mut acc = a0;
            if j % 2 == 0 {
                for k in 0..wide {
                    acc = if k % 3 == 0 { b.not(acc) } else { b.xor(acc, b.input(k % n, k % 2)) };
                    outs.push(acc);
                }
            } else {
                let q = (j / 4) % n;
                for k in (0..wide).step_by(997) {
                    acc = b.xor(acc, b.input(q, k));
                }
                outs.push(acc);
            }
            (n, b.finish(outs))
        }
    };
    let inputs = circ::random_inputs(&mut rng, &c);
    let p_eval = (i / 3) % n;
    let p_out: Vec<usize> = (0..n).filter(|_| big.is_some() || rng.random_bool(0.7)).collect();
    let p_out = if p_out.is_empty() { vec![rng.random_range(0..n)] } else { p_out };
    let a = rng.random_range(0..n);
    let b = (a + 1 + rng.random_range(0..n - 1)) % n;
    let sched = match i % 7 {
        0 => SchedKind::Random,
        1 => SchedKind::Pct(1 + (i / 7 % 3) as u32),
        2 => SchedKind::StarveParty(a),
        3 => SchedKind::StarveLink(a, b),
        4 => SchedKind::LazyDeliver,
        5 => SchedKind::EagerRandom,
        _ => SchedKind::RoundRobin,
    };
    let cap = if big.is_some() { [Some(1), Some(2)][(i / 2) % 2] } else { [Some(1), Some(2), None][(i / 2) % 3] };
    let tmp: Vec<bool> = (0..n).map(|_| rng.random_bool(0.15)).collect();
    let expected = circ::eval_clear(&c, &inputs);
    let mut case = Case::new(c.clone(), inputs.clone(), p_eval, p_out.clone());
    case.cap = cap;
    case.tmp = tmp.clone();
    case.keep_bytes = false;
    case.send_yields = i % 2 == 1;
    case = case.with_sched(sched.clone(), rng.random());
    let ex = exec_mpc(case);
    let mut sig = None;
    let mut ok = true;
    let env = ex.outcomes.iter().any(crate::props::env_failure);
    if ex.end == RunEnd::Stuck {
        ok = false;
        sig = Some(format!("deadlock: no runnable task and no deliverable message with capacity {:?}", cap));
    } else if ex.end == RunEnd::AllFinished {
        for p in 0..n {
            let want = if p_out.contains(&p) { expected.clone() } else { vec![] };
            if !matches!(&ex.outcomes[p], Outcome::Done(Ok(v)) if *v == want) {
                ok = false;
                let got = match &ex.outcomes[p] { Outcome::Done(Ok(_)) => "Ok(wrong value)".to_string(), o => crate::props::classify(o) };
                sig = Some(format!("schedule-dependent result: a party returned {got} under scheduler {}", sched_name(&sched)));
                break;
            }
        }
    }
    if ok {
        if let Some(v) = &ex.net.outstanding_violation {
            ok = false;
            let kind = if v.contains("sends") { "sends" } else { "receives" };
            sig = Some(format!("two {kind} outstanding for the same peer at once"));
        }
    }
    let key = format!("n={n} E={p_eval} cap={:?} sched={} ands={} slow-send={}{}", cap, sched_name(&sched), crate::props::c01::and_class(ands), i % 2 == 1, match big { Some(j) if j % 2 == 0 => " big-output-message", Some(_) => " big-input-messages", None => "" });
    let sample = json!({"n": n, "p_eval": p_eval, "p_out": p_out, "capacity": cap, "scheduler": format!("{sched:?}"), "tmp": bits(&tmp),
        "circuit": if big.is_some() { json!("(wide circuit, omitted)") } else { circ::circ_to_json(&c) }, "steps": ex.steps, "polls": ex.polls, "messages": ex.net.msgs.len(),
        "outcomes": ex.outcomes.iter().map(outcome_str).collect::<Vec<_>>(), "end": format!("{:?}", ex.end),
        "max_outstanding_sends_per_peer": ex.net.max_out_send, "max_outstanding_recvs_per_peer": ex.net.max_out_recv,
        "outstanding_violation": ex.net.outstanding_violation});
    let end = if env { RunEnd::StepLimit } else { ex.end };
    Out { key, end, ok: ok || env, sig, sample, sched_hash: ex.sched_hash, ilv_hash: ex.ilv_hash, steps: ex.steps, max_out: (ex.net.max_out_send, ex.net.max_out_recv) }
}

fn sched_name(s: &SchedKind) -> &'static str {
    match s {
        SchedKind::RoundRobin => "round-robin",
        SchedKind::Random => "random",
        SchedKind::Pct(_) => "pct",
        SchedKind::StarveParty(_) => "starve-party",
        SchedKind::StarveLink(..) => "starve-link",
        SchedKind::LazyDeliver => "lazy-deliver",
        SchedKind::EagerRandom => "eager-random",
    }
}

pub fn run(tier: &str, seed: u64) -> i32 {
    let thorough = tier == "thorough";
    let mut rep = Report::new("C12", tier, seed, "exploration");
    rep.rule = "honest executions under seeded schedulers (round-robin, uniform random, PCT with 1-3 change points, starve-one-party, starve-one-link, lazy / eager delivery) x channel capacity 1, 2, unbounded x n=2..4 x every evaluator, plus circuits whose single messages exceed 1 MiB (about 60000 output registers resp. 60000 input bits of one party) under capacity 1 and 2; oracle: every party Ok(clear-text value), never stuck, never two sends or two receives outstanding per (party, peer). distinct = (n, evaluator, capacity, scheduler kind, AND class); non-trivial = the run had at least one scheduling choice (steps > 0); distinct schedules and interleavings are counted by hash".into();
    rep.assumptions = vec!["per-pair FIFO, reliable channel; schedules are sampled, not enumerated".into()];
    let n_runs = if thorough { 30000 } else { 3000 };
    let n_big = if thorough { 96 } else { 12 };
    let outs = parallel_for(n_runs + n_big, threads(), |i| if i < n_runs { one(i, seed, thorough, None) } else { one(i - n_runs + (seed as usize % 4), seed, thorough, Some(i - n_runs)) });
    let mut scheds = std::collections::BTreeSet::new();
    let mut ilvs = std::collections::BTreeSet::new();
    let mut steps = 0u64;
    let mut max_out = (0u32, 0u32);
    for o in outs {
        rep.evaluations += 1;
        match &o.end {
            RunEnd::HarnessError(e) => { rep.harness_error(e.clone()); continue; }
            RunEnd::StepLimit => { rep.inconclusive("step limit or temp-file I/O error of the environment"); continue; }
            _ => {}
        }
        scheds.insert(o.sched_hash);
        ilvs.insert(o.ilv_hash);
        steps += o.steps;
        max_out.0 = max_out.0.max(o.max_out.0);
        max_out.1 = max_out.1.max(o.max_out.1);
        if o.steps > 0 {
            rep.distinct.insert(o.key.clone());
        }
        if !o.ok {
            rep.violation(o.sig.unwrap_or_else(|| "unexpected end".into()), o.sample);
        } else if rep.evaluations % 199 == 1 {
            rep.sample(o.sample);
        }
    }
    rep.set("distinct_schedules", json!(scheds.len()));
    rep.set("distinct_interleavings", json!(ilvs.len()));
    rep.set("scheduling_decisions", json!(steps));
    rep.set("max_outstanding_sends_per_peer", json!(max_out.0));
    rep.set("max_outstanding_recvs_per_peer", json!(max_out.1));
    rep.finish()
}
