//! C09 - communication pattern and message sizes do not depend on private inputs.
use rand::{Rng, SeedableRng};
use rand_chacha::ChaCha8Rng;
use serde_json::{Value, json};

use crate::circ;
use crate::report::{Report, bits};
use crate::runner::{Case, exec_mpc, parallel_for, threads};
use crate::sim::{EvKind, Outcome, RunEnd, SchedKind};

/// per (party, peer): sequence of (direction, length); direction 0 = send, 1 = receive
type Pattern = Vec<Vec<Vec<(u8, usize)>>>;

fn pattern(net: &crate::sim::Net) -> Pattern {
    let n = net.n;
    let mut p: Pattern = vec![vec![vec![]; n]; n];
    for e in &net.log {
        match e.kind {
            EvKind::SendCall => p[e.party][e.peer].push((0, e.len)),
            EvKind::RecvDone => p[e.party][e.peer].push((1, e.len)),
            _ => {}
        }
    }
    p
}

struct Out {
    key: String,
    runs: usize,
    msgs: usize,
    ops: usize,
    harness: Option<String>,
    violation: Option<(String, Value)>,
    sample: Value,
}

fn one_config(i: usize, seed: u64, reps: usize, thorough: bool, big: bool) -> Out {
    let mut rng = ChaCha8Rng::seed_from_u64(seed ^ 0xc09 ^ (i as u64).wrapping_mul(0x9e3779b97f4a7c15));
    let n = if big { 2 + i % 2 } else { 2 + i % 3 };
    let ands = if big { 2100 + (i % 3) * 450 } else if thorough && i % 17 == 0 { 1001 } else if i % 3 == 1 { (i * 7 + seed as usize) % 101 } else { [0usize, 1, 2, 3, 6, 10, 13, 26][i % 8] };
    let mut cfg = circ::random_gen_cfg(&mut rng, n, ands);
    if ands > 500 { cfg.others = 50; cfg.extra_regs = 30; cfg.reuse_pct = 50; }
    // wide circuits: thousands of registers (message vectors are sized by max_reg_count) and many outputs
    let wide = i % 10 == 7;
    if wide {
        cfg.others = 1100 + (i % 7) * 300;
        cfg.extra_regs = cfg.others + ands + 40;
        cfg.reuse_pct = 0;
        cfg.n_out = 48;
    }
    let c = circ::gen_circuit(&mut rng, &cfg);
    let p_eval = rng.random_range(0..n);
    let p_out: Vec<usize> = (0..n).filter(|_| rng.random_bool(0.6)).collect();
    let p_out = if p_out.is_empty() { vec![rng.random_range(0..n)] } else { p_out };
    let tmp: Vec<bool> = (0..n).map(|_| thorough && rng.random_bool(0.3)).collect();
    let key = format!("n={n} E={p_eval} O={:?} ands={ands} regs={} tmp={} feat={}", p_out, if c.max_reg_count >= 1024 { ">=1024" } else { "<1024" }, bits(&tmp), cfg.features());
    let mut reference: Option<(Pattern, Vec<Vec<bool>>)> = None;
    let mut msgs = 0;
    let mut ops = 0;
    let mut sample = json!(null);
    for r in 0..reps {
        let inputs: Vec<Vec<bool>> = match r {
            0 => c.input_regs.iter().map(|k| vec![false; *k]).collect(),
            1 => c.input_regs.iter().map(|k| vec![true; *k]).collect(),
            _ => circ::random_inputs(&mut rng, &c),
        };
        let expected = circ::eval_clear(&c, &inputs);
        let mut case = Case::new(c.clone(), inputs.clone(), p_eval, p_out.clone());
        case.tmp = tmp.clone();
        case.keep_bytes = false;
        case = case.with_sched(SchedKind::RoundRobin, 0);
        // the last execution runs under a perturbed wall clock: the sender stalls in real time after
        // larger sends (message boundaries must not depend on elapsed time)
        if r + 1 == reps {
            case.stall_after_send = Some(if big { (64 << 10, 120_000) } else { (4 << 10, 1_000) });
        }
        // ... and, for the big configurations, with a slowed-down CPU inside the engine's loops: every
        // instrumented site (per garbled row, per opened d-value, ...) costs 80 microseconds of real time
        let slow_cpu = big && r + 1 == reps && crate::hooks::HOOKS_ON;
        if slow_cpu {
            crate::hooks::install_tap(Some(Box::new(|_site, _party, _idx, _value| {
                std::thread::sleep(std::time::Duration::from_micros(80));
            })));
        }
        let ex = exec_mpc(case);
        if slow_cpu {
            crate::hooks::install_tap(None);
        }
        if let RunEnd::HarnessError(e) = &ex.end {
            return Out { key, runs: r, msgs, ops, harness: Some(e.clone()), violation: None, sample };
        }
        let ok = ex.end == RunEnd::AllFinished
            && (0..n).all(|p| matches!(&ex.outcomes[p], Outcome::Done(Ok(v)) if *v == if p_out.contains(&p) { expected.clone() } else { vec![] }));
        if !ok {
            return Out { key, runs: r, msgs, ops, harness: Some("honest run failed (judged by C01)".into()), violation: None, sample };
        }
        let pat = pattern(&ex.net);
        msgs += ex.net.msgs.len();
        ops += pat.iter().flatten().map(|v| v.len()).sum::<usize>();
        match &reference {
            None => {
                sample = json!({"config": key, "circuit": circ::circ_to_json(&c), "runs": reps, "messages_per_run": ex.net.msgs.len(),
                    "pattern_party0_peer1_first10": pat[0][1].iter().take(10).map(|(d, l)| format!("{}{}", if *d == 0 { "S" } else { "R" }, l)).collect::<Vec<_>>()});
                reference = Some((pat, inputs));
            }
            Some((rp, rin)) => {
                for a in 0..n {
                    for b in 0..n {
                        if rp[a][b] != pat[a][b] {
                            let ix = rp[a][b].iter().zip(&pat[a][b]).position(|(x, y)| x != y).unwrap_or(rp[a][b].len().min(pat[a][b].len()));
                            let w = json!({"config": key, "circuit": circ::circ_to_json(&c), "party": a, "peer": b, "first_differing_op": ix,
                                "run_a_inputs": rin.iter().map(|v| bits(v)).collect::<Vec<_>>(), "run_b_inputs": inputs.iter().map(|v| bits(v)).collect::<Vec<_>>(),
                                "run_a_op": format!("{:?}", rp[a][b].get(ix)), "run_b_op": format!("{:?}", pat[a][b].get(ix)),
                                "run_a_ops": rp[a][b].len(), "run_b_ops": pat[a][b].len()});
                            let kind = if rp[a][b].len() != pat[a][b].len() { "number of operations" } else if rp[a][b][ix].0 != pat[a][b][ix].0 { "direction/order" } else { "message length" };
                            return Out { key, runs: r + 1, msgs, ops, harness: None, violation: Some((format!("communication pattern differs between executions of one public configuration ({kind})"), w)), sample };
                        }
                    }
                }
            }
        }
    }
    Out { key, runs: reps, msgs, ops, harness: None, violation: None, sample }
}

pub fn run(tier: &str, seed: u64) -> i32 {
    let thorough = tier == "thorough";
    let mut rep = Report::new("C09", tier, seed, "exploration");
    rep.rule = "per public configuration (circuit, n, evaluator, output set, temp-file mask) R executions with inputs all-0, all-1 and random and fresh coins under one fixed schedule; per (party, peer) the sequence of (direction, byte length) must be identical; the last execution of every configuration runs under a perturbed wall clock (the sender stalls 1 ms of real time after every send of 4 KiB or more; for two (thorough: six) configurations with 2100..3000 AND gates 120 ms after every send of 64 KiB or more, and every instrumented site inside the engine's loops - per garbled row, per opened value - costs 80 microseconds of real time). distinct = configuration; non-trivial = at least two executions with different inputs were compared".into();
    rep.assumptions = vec!["fixed round-robin schedule with immediate delivery so that the per-party operation order is a function of the code path only".into(), "timing itself is not observed; dependence of message boundaries on elapsed time is probed by the stalls only".into()];
    let (n_cfg, reps) = if thorough { (500, 12) } else { (120, 6) };
    let n_big = if thorough { 6 } else { 2 };
    let outs = parallel_for(n_cfg + n_big, threads(), |i| if i < n_cfg { one_config(i, seed, reps, thorough, false) } else { one_config(i - n_cfg + (seed as usize % 6), seed, 3, thorough, true) });
    for o in outs {
        rep.evaluations += o.runs as u64;
        rep.add("messages_observed", o.msgs as u64);
        rep.add("channel_operations_compared", o.ops as u64);
        if let Some(h) = o.harness {
            rep.harness_error(h);
            continue;
        }
        if o.runs >= 2 {
            rep.distinct.insert(o.key.clone());
        }
        if let Some((sig, w)) = o.violation {
            rep.violation(sig, w);
        } else {
            rep.sample(o.sample);
        }
    }
    rep.finish()
}
