//! `prim-run <seed> <scale>`: C20 comparison workload as a stand-alone program (Miri, ASan, memcheck).
fn main() {
    let args: Vec<String> = std::env::args().collect();
    let seed: u64 = args.get(1).and_then(|s| s.parse().ok()).unwrap_or(1);
    let scale: u32 = args.get(2).and_then(|s| s.parse().ok()).unwrap_or(0);
    let t = prim::run_all(seed, scale);
    println!("PRIM checks={} distinct={} mismatches={}", t.checks, t.distinct.len(), t.mismatches.len());
    for m in &t.mismatches {
        println!("MISMATCH {m}");
    }
    if !t.mismatches.is_empty() {
        std::process::exit(1);
    }
}
