//! Thin layer over `polytune::verif` (feature `hooks`), so the rest of the harness compiles
//! with and without the hooked engine.
#[cfg(feature = "hooks")]
pub use polytune::verif as pv;

pub fn set_current_party(p: Option<usize>) {
    #[cfg(feature = "hooks")]
    pv::set_current_party(p);
    #[cfg(not(feature = "hooks"))]
    let _ = p;
}

/// One recorded probe value.
#[derive(Clone, Debug)]
pub struct ProbeRec {
    pub site: &'static str,
    pub party: Option<usize>,
    pub index: usize,
    pub value: Vec<u8>,
    /// logical time (net clock) is not known here; order of arrival is kept
    pub seq: usize,
}

use std::cell::RefCell;
use std::rc::Rc;

/// Installs a recording probe sink on this thread; returns the shared record list.
pub fn record_probes() -> Rc<RefCell<Vec<ProbeRec>>> {
    let recs: Rc<RefCell<Vec<ProbeRec>>> = Rc::new(RefCell::new(vec![]));
    #[cfg(feature = "hooks")]
    {
        let r = recs.clone();
        pv::install_probe_sink(Some(Box::new(move |site, party, index, value| {
            let mut v = r.borrow_mut();
            let seq = v.len();
            v.push(ProbeRec { site, party, index, value: value.to_vec(), seq });
        })));
    }
    recs
}

pub fn clear_probes() {
    #[cfg(feature = "hooks")]
    pv::install_probe_sink(None);
}

/// Tap handler: (site, party, index, value)
pub type TapFn = Box<dyn FnMut(&'static str, Option<usize>, usize, &mut [u8])>;

pub fn install_tap(t: Option<TapFn>) {
    #[cfg(feature = "hooks")]
    pv::install_tap(t);
    #[cfg(not(feature = "hooks"))]
    let _ = t;
}
