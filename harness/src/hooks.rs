//! Thin layer over `polytune::verif` (feature `hooks`), so the rest of the harness compiles
//! with and without the hooked engine. Probe values are recorded in a thread-local list so that
//! monitors *and* dynamic adversaries (same thread, same poll) can read them.
#[cfg(feature = "hooks")]
pub use polytune::verif as pv;

use std::cell::RefCell;

pub fn set_current_party(p: Option<usize>) {
    #[cfg(feature = "hooks")]
    pv::set_current_party(p);
    #[cfg(not(feature = "hooks"))]
    let _ = p;
}

/// One recorded probe value.
#[derive(Clone, Debug)]
pub struct ProbeRec {
    pub site: &'static str,
    pub party: Option<usize>,
    pub index: usize,
    pub value: Vec<u8>,
    pub seq: usize,
    /// number of messages sent (by anyone) when the probe fired - set by the runner's clock fn
    pub msgs_before: usize,
}

thread_local! {
    static PROBES: RefCell<Vec<ProbeRec>> = const { RefCell::new(Vec::new()) };
    static MSG_CLOCK: std::cell::Cell<usize> = const { std::cell::Cell::new(0) };
}

/// Called by the network whenever a message has been sent (logical clock for probes).
pub fn tick_msg_clock(n: usize) {
    MSG_CLOCK.with(|c| c.set(n));
}

/// Starts recording probes on this thread (clears earlier records).
pub fn record_probes() {
    PROBES.with(|p| p.borrow_mut().clear());
    MSG_CLOCK.with(|c| c.set(0));
    #[cfg(feature = "hooks")]
    pv::install_probe_sink(Some(Box::new(move |site, party, index, value| {
        PROBES.with(|p| {
            let mut v = p.borrow_mut();
            let seq = v.len();
            let msgs_before = MSG_CLOCK.with(|c| c.get());
            v.push(ProbeRec { site, party, index, value: value.to_vec(), seq, msgs_before });
        });
    })));
}

pub fn probes_snapshot() -> Vec<ProbeRec> {
    PROBES.with(|p| p.borrow().clone())
}

/// The global key of `party` as probed in the current execution.
pub fn delta_of(party: usize) -> Option<u128> {
    PROBES.with(|p| {
        p.borrow()
            .iter()
            .find(|r| r.site == "delta" && r.index == party)
            .map(|r| u128::from_le_bytes(r.value[..16].try_into().unwrap()))
    })
}

pub fn clear_probes() {
    #[cfg(feature = "hooks")]
    pv::install_probe_sink(None);
}

/// Tap handler: (site, party, index, value)
pub type TapFn = Box<dyn FnMut(&'static str, Option<usize>, usize, &mut [u8])>;

pub fn install_tap(t: Option<TapFn>) {
    #[cfg(feature = "hooks")]
    pv::install_tap(t);
    #[cfg(not(feature = "hooks"))]
    let _ = t;
}

pub const HOOKS_ON: bool = cfg!(feature = "hooks");
