#[doc(hidden)]
pub mod __private229 {
    #[doc(hidden)]
    pub use crate::private::*;
}
