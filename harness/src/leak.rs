//! C07 transcript scanners: does the pooled traffic contain a party's global key, or a small
//! set of 128-bit values whose XOR is that key?
use std::collections::HashMap;

use serde_json::{Value, json};

use crate::codec;
use crate::sim::Net;

#[derive(Default, Debug, Clone)]
pub struct LeakReport {
    pub windows: usize,
    pub fields: usize,
    pub direct: Option<Value>,
    pub pair: Option<Value>,
    pub triple: Option<Value>,
    pub triples_checked: bool,
}

impl LeakReport {
    pub fn any(&self) -> bool {
        self.direct.is_some() || self.pair.is_some() || self.triple.is_some()
    }
    pub fn kind(&self) -> &'static str {
        if self.direct.is_some() { "key-in-clear" } else if self.pair.is_some() { "xor-of-2" } else if self.triple.is_some() { "xor-of-3" } else { "none" }
    }
}

fn describe(net: &Net, msg: usize, off: usize, order: &str) -> Value {
    let m = &net.msgs[msg];
    json!({"msg": msg, "from": m.from, "to": m.to, "label": net.label(m.label), "k": m.k, "offset": off, "byte_order": order})
}

/// Scans everything on the wire for `delta` (the global key of `target`).
/// Bytes of a message as seen by an eavesdropper / held by the peers: what an honest sender
/// really sent (even if the adversary rewrote its copy on the way in), what a corrupted sender put on the wire.
fn pool_bytes<'a>(m: &'a crate::sim::MsgRec, corrupt: Option<usize>) -> Option<&'a Vec<u8>> {
    if Some(m.from) == corrupt { m.wire.as_ref() } else if m.sent.is_empty() { m.wire.as_ref() } else { Some(&m.sent) }
}

pub fn scan(net: &Net, delta: u128, triples: bool, corrupt: Option<usize>) -> LeakReport {
    let mut rep = LeakReport::default();
    if delta == 0 {
        return rep;
    }
    // every 16-byte window at every byte offset, both byte orders
    let mut set: HashMap<u128, (u32, u32, u8)> = HashMap::new();
    for m in &net.msgs {
        let Some(w) = pool_bytes(m, corrupt) else { continue };
        if w.len() < 16 {
            continue;
        }
        for off in 0..=(w.len() - 16) {
            let b: [u8; 16] = w[off..off + 16].try_into().unwrap();
            let le = u128::from_le_bytes(b);
            let be = u128::from_be_bytes(b);
            rep.windows += 1;
            if le == delta || be == delta {
                if rep.direct.is_none() {
                    rep.direct = Some(describe(net, m.id, off, if le == delta { "le" } else { "be" }));
                }
            }
            set.entry(le).or_insert((m.id as u32, off as u32, 0));
            set.entry(be).or_insert((m.id as u32, off as u32, 1));
        }
    }
    // zero windows would pair with the key itself (already reported as direct); skip them
    if rep.direct.is_none() {
        for (v, (mid, off, ord)) in &set {
            if *v == 0 || *v == delta {
                continue;
            }
            if let Some((mid2, off2, ord2)) = set.get(&(*v ^ delta)) {
                rep.pair = Some(json!({
                    "a": describe(net, *mid as usize, *off as usize, if *ord == 0 { "le" } else { "be" }),
                    "b": describe(net, *mid2 as usize, *off2 as usize, if *ord2 == 0 { "le" } else { "be" }),
                }));
                break;
            }
        }
    }
    if triples {
        rep.triples_checked = true;
        // decoded 128-bit fields (schema leaves + the MAC slots inside 'fashare ver' byte strings)
        let mut fields: Vec<(u128, u32)> = vec![];
        for m in &net.msgs {
            let Some(w) = pool_bytes(m, corrupt) else { continue };
            let label = net.label(m.label);
            let Some(sch) = codec::schema_for(label) else { continue };
            let Some(val) = codec::decode_all(&sch, w) else { continue };
            let mut leaves = vec![];
            if label == "fashare ver" {
                if let codec::Val::Vec(items) = &val {
                    for it in items {
                        if let codec::Val::Vec(bytes) = it {
                            let raw: Vec<u8> = bytes.iter().filter_map(|b| if let codec::Val::U8(x) = b { Some(*x) } else { None }).collect();
                            let mut o = 1;
                            while o + 16 <= raw.len() {
                                leaves.push(u128::from_be_bytes(raw[o..o + 16].try_into().unwrap()));
                                o += 16;
                            }
                        }
                    }
                }
            } else if matches!(label, "ALSZ_OT_setup" | "CO_OT_r" | "CO_OT_s" | "RNG ver" | "preprocessed gates") {
                // byte strings without 128-bit field structure
            } else {
                codec::u128_leaves(&val, &mut leaves);
            }
            for l in leaves {
                if l != 0 {
                    fields.push((l, m.id as u32));
                }
            }
        }
        fields.sort();
        fields.dedup_by_key(|f| f.0);
        rep.fields = fields.len();
        if fields.len() <= 6000 && rep.direct.is_none() && rep.pair.is_none() {
            let idx: HashMap<u128, u32> = fields.iter().map(|(v, m)| (*v, *m)).collect();
            'outer: for i in 0..fields.len() {
                for j in (i + 1)..fields.len() {
                    let want = fields[i].0 ^ fields[j].0 ^ delta;
                    if want == 0 || want == fields[i].0 || want == fields[j].0 {
                        continue;
                    }
                    if let Some(m3) = idx.get(&want) {
                        rep.triple = Some(json!({
                            "a": describe(net, fields[i].1 as usize, 0, "field"),
                            "b": describe(net, fields[j].1 as usize, 0, "field"),
                            "c": describe(net, *m3 as usize, 0, "field"),
                        }));
                        break 'outer;
                    }
                }
            }
        } else if fields.len() > 6000 {
            rep.triples_checked = false;
        }
    }
    rep
}


/// Exact disclosure at a fixed position: `sent[e]` is everything one party sent in execution `e`
/// (same layout in every execution, at most 64 executions); `keys` maps the per-execution bit vector of
/// a secret bit (bit e = value in execution e) to a description. Returns every (byte, bit) position of
/// the traffic whose per-execution vector is not constant and equals a key (at most 64 hits per worker).
pub fn fixed_position_hits<V: Copy + Send + Sync>(sent: &[&[u8]], keys: &std::collections::HashMap<u64, V>) -> Vec<(usize, usize, V)> {
    let n = sent.len();
    assert!(n >= 1 && n <= 64);
    let full: u64 = if n == 64 { u64::MAX } else { (1u64 << n) - 1 };
    let nbytes = sent[0].len();
    let nth = crate::runner::threads();
    let chunk = nbytes.div_ceil(nth).max(1);
    let parts: Vec<Vec<(usize, usize, V)>> = crate::runner::parallel_for(nth, nth, |t| {
        let mut found = vec![];
        let lo = t * chunk;
        let hi = ((t + 1) * chunk).min(nbytes);
        for b in lo..hi {
            let mut v = [0u64; 8];
            for (e, r) in sent.iter().enumerate() {
                let byte = r[b];
                for (i, vi) in v.iter_mut().enumerate() {
                    *vi |= (((byte >> i) & 1) as u64) << e;
                }
            }
            for (i, vi) in v.iter().enumerate() {
                if *vi == 0 || *vi == full {
                    continue; // constant bit
                }
                if let Some(h) = keys.get(vi) {
                    found.push((b, i, *h));
                    if found.len() > 64 {
                        return found;
                    }
                }
            }
        }
        found
    });
    parts.into_iter().flatten().collect()
}


/// Freshness: within one message no high-entropy 16-byte window (at any offset) may occur twice.
/// Values that blind secrets (base-OT points, OT matrix columns, MACs, ciphertext rows) are fresh per
/// element; a repetition inside one message means that a blinding value was reused. Returns the first
/// repetition found as (message label, occurrence, sender, receiver, offset a, offset b).
pub fn repeat_scan(net: &crate::sim::Net, max_len: usize) -> (usize, Option<serde_json::Value>) {
    let mut windows = 0usize;
    for m in &net.msgs {
        let b = &m.sent;
        if b.len() < 32 || b.len() > max_len {
            continue;
        }
        // only messages whose elements are blinded individually: base-OT points, OT-extension columns and
        // corrections, garbled rows. (MAC-bearing share vectors legitimately repeat a value: a NOT gate's
        // output register carries its input's share; echo messages repeat hashes of equal messages.)
        let label = net.label(m.label);
        if !(label.starts_with("CO_OT") || label.starts_with("ALSZ") || label.starts_with("KOS") || label == "preprocessed gates") {
            continue;
        }
        let mut seen: std::collections::HashMap<[u8; 16], usize> = std::collections::HashMap::with_capacity(b.len());
        for off in 0..=(b.len() - 16) {
            let w: [u8; 16] = b[off..off + 16].try_into().unwrap();
            let mut mask = [0u64; 4];
            for x in w {
                mask[(x >> 6) as usize] |= 1u64 << (x & 63);
            }
            let distinct: u32 = mask.iter().map(|m| m.count_ones()).sum();
            if distinct < 13 {
                continue;
            }
            windows += 1;
            if let Some(prev) = seen.insert(w, off) {
                if off - prev >= 16 {
                    return (windows, Some(serde_json::json!({"label": net.label(m.label), "occurrence": m.k, "from": m.from, "to": m.to, "offset_a": prev, "offset_b": off, "message_len": b.len()})));
                }
                seen.insert(w, prev);
            }
        }
    }
    // Across messages: the pairwise OT instances of one party (towards different peers, and of different
    // batches) use independent coins, so no high-entropy 16-byte value of one OT message of a party
    // re-appears in another OT message of the same party (8-byte aligned comparison: all elements of these
    // messages start at multiples of 8).
    let mut seen: std::collections::HashMap<(usize, [u8; 16]), (usize, usize)> = std::collections::HashMap::new();
    for (mi, m) in net.msgs.iter().enumerate() {
        let b = &m.sent;
        if b.len() < 32 || b.len() > max_len {
            continue;
        }
        let label = net.label(m.label);
        if !(label.starts_with("CO_OT") || label.starts_with("ALSZ") || label.starts_with("KOS")) {
            continue;
        }
        let mut off = 0;
        while off + 16 <= b.len() {
            let w: [u8; 16] = b[off..off + 16].try_into().unwrap();
            let mut mask = [0u64; 4];
            for x in w {
                mask[(x >> 6) as usize] |= 1u64 << (x & 63);
            }
            let distinct: u32 = mask.iter().map(|m| m.count_ones()).sum();
            if distinct >= 13 {
                windows += 1;
                if let Some((pm, poff)) = seen.get(&(m.from, w)).copied() {
                    if pm != mi {
                        let o = &net.msgs[pm];
                        return (windows, Some(serde_json::json!({"kind": "value repeated in two OT messages of one party", "from": m.from,
                            "first": {"label": net.label(o.label), "occurrence": o.k, "to": o.to, "offset": poff},
                            "second": {"label": label, "occurrence": m.k, "to": m.to, "offset": off}})));
                    }
                } else {
                    seen.insert((m.from, w), (mi, off));
                }
            }
            off += 8;
        }
    }
    (windows, None)
}
