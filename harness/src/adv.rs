//! The adversary: fault plans that rewrite what one corrupted party puts on the wire.
use std::sync::{Arc, Mutex};

use rand::{Rng, SeedableRng};
use rand_chacha::ChaCha8Rng;

use crate::codec::{self, TreeMut};
use crate::sim::{Action, Adversary, MsgMeta};

#[derive(Clone, Debug, PartialEq)]
pub enum ByteMut {
    Empty,
    OneByte,
    /// keep the first len * num / 8 bytes
    Truncate(u8),
    /// cut one byte off the end
    CutLast,
    AppendGarbage,
    AllFF,
    RandomSameLen,
    /// overwrite the outer length prefix
    LenPrefix(LenKind),
    FlipRandomBit,
    /// the byte at this offset becomes 0xff (sweep over the offsets of short messages: every field of an
    /// unknown layout gets an out-of-range value once)
    SetByteAt(usize),
    /// schema-free: the last length-prefixed vector of the message (found as a u64 v at some offset such that
    /// the rest of the message is v elements of one plausible size) is emptied
    TailVecEmpty,
    /// the same vector loses its last element
    TailVecMinus1,
}

/// (offset of the length prefix, element count, element size) of the last vector of a bincode message.
pub fn tail_vec(d: &[u8]) -> Option<(usize, usize, usize)> {
    if d.len() < 9 {
        return None;
    }
    let mut p = d.len() - 9;
    loop {
        let v = u64::from_le_bytes(d[p..p + 8].try_into().unwrap()) as usize;
        let rest = d.len() - p - 8;
        if v >= 1 && v <= rest && rest % v == 0 {
            let e = rest / v;
            if [1usize, 2, 4, 8, 16, 17, 18, 24, 32, 33, 34, 40, 48, 64].contains(&e) {
                return Some((p, v, e));
            }
        }
        if p == 0 {
            return None;
        }
        p -= 1;
    }
}

#[derive(Clone, Debug, PartialEq)]
pub enum LenKind {
    Zero,
    Minus1,
    Plus1,
    Two32,
    Two63,
    Max,
}

pub fn byte_mut_classes() -> Vec<ByteMut> {
    use ByteMut::*;
    vec![
        Empty, OneByte, Truncate(1), Truncate(4), Truncate(7), CutLast, AppendGarbage, AllFF, RandomSameLen,
        LenPrefix(LenKind::Zero), LenPrefix(LenKind::Minus1), LenPrefix(LenKind::Plus1), LenPrefix(LenKind::Two32),
        LenPrefix(LenKind::Two63), LenPrefix(LenKind::Max), FlipRandomBit, TailVecEmpty, TailVecMinus1,
    ]
}

pub fn apply_byte_mut(m: &ByteMut, data: &[u8], rng: &mut impl Rng) -> Vec<u8> {
    let mut d = data.to_vec();
    match m {
        ByteMut::Empty => d.clear(),
        ByteMut::OneByte => { d.truncate(1); if d.is_empty() { d.push(7); } }
        ByteMut::Truncate(e) => { let k = d.len() * (*e as usize) / 8; d.truncate(k); }
        ByteMut::CutLast => { d.pop(); }
        ByteMut::AppendGarbage => { for _ in 0..rng.random_range(1..40) { d.push(rng.random()); } }
        ByteMut::AllFF => { for b in d.iter_mut() { *b = 0xff; } }
        ByteMut::RandomSameLen => { rng.fill(&mut d[..]); }
        ByteMut::FlipRandomBit => { if !d.is_empty() { let i = rng.random_range(0..d.len()); d[i] ^= 1 << rng.random_range(0..8); } }
        ByteMut::SetByteAt(off) => {
            if let Some(b) = d.get_mut(*off) {
                *b = if *b == 0xff { 0x7f } else { 0xff };
            }
        }
        ByteMut::TailVecEmpty => {
            if let Some((p, _, _)) = tail_vec(&d) {
                d.truncate(p + 8);
                d[p..p + 8].copy_from_slice(&0u64.to_le_bytes());
            }
        }
        ByteMut::TailVecMinus1 => {
            if let Some((p, v, e)) = tail_vec(&d) {
                let l = d.len();
                d.truncate(l - e);
                d[p..p + 8].copy_from_slice(&((v - 1) as u64).to_le_bytes());
            }
        }
        ByteMut::LenPrefix(k) => {
            if d.len() >= 8 {
                let cur = u64::from_le_bytes(d[..8].try_into().unwrap());
                let new = match k {
                    LenKind::Zero => 0,
                    LenKind::Minus1 => cur.wrapping_sub(1),
                    LenKind::Plus1 => cur + 1,
                    LenKind::Two32 => 1 << 32,
                    LenKind::Two63 => 1 << 63,
                    LenKind::Max => u64::MAX,
                };
                d[..8].copy_from_slice(&new.to_le_bytes());
            }
        }
    }
    d
}

#[derive(Clone, Debug, PartialEq)]
pub enum What {
    Bytes(ByteMut),
    Tree(TreeMut),
    /// several tree mutations applied to the same message
    TreeMulti(Vec<TreeMut>),
    Drop,
    Replace(Vec<u8>),
    /// pass the message, then the sender disappears
    CrashAfter,
    /// rushing reflection: wait until the receiver's own message of the same label and occurrence
    /// has been sent to the corrupted party and send a copy of it back
    Reflect,
}

#[derive(Clone, Debug, PartialEq)]
pub struct Target {
    pub from: usize,
    /// None = the copies for all receivers (same mutation: all-recipient consistent)
    pub to: Option<usize>,
    pub label: String,
    /// None = every occurrence (persistent attacker)
    pub k: Option<usize>,
}

#[derive(Clone, Debug, PartialEq)]
pub struct FaultAction {
    pub target: Target,
    pub what: What,
}

/// Crash the sender after its idx-th message (0-based, counted over all its sends).
#[derive(Clone, Debug, PartialEq)]
pub struct CrashAt {
    pub party: usize,
    pub after_idx: usize,
}

#[derive(Clone, Debug, Default)]
pub struct FaultPlan {
    pub corrupt: usize,
    pub actions: Vec<FaultAction>,
    pub crash: Option<CrashAt>,
    pub seed: u64,
}

#[derive(Default, Debug, Clone)]
pub struct FireLog {
    /// (msg label, to, k, applied?)
    pub fired: Vec<(String, usize, usize, bool)>,
}

pub struct PlanAdversary {
    pub plan: FaultPlan,
    pub log: Arc<Mutex<FireLog>>,
    /// what each party tried to send, keyed by (from, to, label, occurrence) - also while it is held back
    pub stash: std::collections::HashMap<(usize, usize, String, usize), Vec<u8>>,
}

impl PlanAdversary {
    pub fn new(plan: FaultPlan) -> (Self, Arc<Mutex<FireLog>>) {
        let log = Arc::new(Mutex::new(FireLog::default()));
        (PlanAdversary { plan, log: log.clone(), stash: Default::default() }, log)
    }
}

fn h(s: &str) -> u64 {
    let mut x = 0xcbf29ce484222325u64;
    for b in s.bytes() {
        x ^= b as u64;
        x = x.wrapping_mul(0x100000001b3);
    }
    x
}

impl Adversary for PlanAdversary {
    fn on_send(&mut self, meta: &MsgMeta, data: &[u8]) -> Action {
        let mut act = Action::default();
        if self.plan.actions.iter().any(|a| matches!(a.what, What::Reflect)) {
            self.stash.insert((meta.from, meta.to, meta.label.to_string(), meta.k), data.to_vec());
        }
        if let Some(c) = &self.plan.crash {
            if c.party == meta.from && meta.idx_from == c.after_idx {
                act.crash_sender_after = true;
            }
        }
        let mut cur: Option<Vec<u8>> = None;
        for a in &self.plan.actions {
            let t = &a.target;
            if t.from != meta.from || t.label != meta.label {
                continue;
            }
            if let Some(to) = t.to {
                if to != meta.to { continue; }
            }
            if let Some(k) = t.k {
                if k != meta.k { continue; }
            }
            // same randomness for every recipient of the same logical message
            let mut rng = ChaCha8Rng::seed_from_u64(self.plan.seed ^ h(meta.label) ^ (meta.k as u64).wrapping_mul(0x9e3779b97f4a7c15));
            let base = cur.clone().unwrap_or_else(|| data.to_vec());
            let mut applied = true;
            match &a.what {
                What::Bytes(m) => cur = Some(apply_byte_mut(m, &base, &mut rng)),
                What::Tree(m) => match mutate_tree(meta.label, &base, std::slice::from_ref(m), &mut rng) {
                    Some(b) => cur = Some(b),
                    None => applied = false,
                },
                What::TreeMulti(ms) => match mutate_tree(meta.label, &base, ms, &mut rng) {
                    Some(b) => cur = Some(b),
                    None => applied = false,
                },
                What::Drop => act.drop = true,
                What::Replace(b) => cur = Some(b.clone()),
                What::Reflect => {
                    let theirs = self.stash.get(&(meta.to, meta.from, meta.label.to_string(), meta.k));
                    match theirs {
                        Some(x) => cur = Some(x.clone()),
                        None => {
                            if meta.held < 20_000 {
                                act.hold = true;
                                return act;
                            }
                            applied = false;
                        }
                    }
                }
                What::CrashAfter => act.crash_sender_after = true,
            }
            if let Some(c) = &cur {
                if c == data && !matches!(a.what, What::CrashAfter | What::Drop) {
                    applied = false;
                }
            }
            self.log.lock().unwrap().fired.push((meta.label.to_string(), meta.to, meta.k, applied));
        }
        if let Some(c) = cur {
            if c != data {
                act.replace = Some(c);
            }
        }
        act
    }
}

pub fn mutate_tree(label: &str, data: &[u8], ms: &[TreeMut], rng: &mut impl Rng) -> Option<Vec<u8>> {
    let sch = codec::schema_for(label)?;
    let mut val = codec::decode_all(&sch, data)?;
    let mut any = false;
    for m in ms {
        if codec::apply(&sch, &mut val, m, rng) {
            any = true;
        }
    }
    if !any {
        return None;
    }
    Some(codec::to_bytes(&val))
}

/// Online-phase labels (used by the "does not proceed" oracle).
pub const ONLINE_LABELS: &[&str] = &["preprocessed gates", "wire shares", "masked inputs", "broadcast masked inputs", "labels", "output wire shares", "lambda"];

pub fn is_online_label(l: &str) -> bool {
    ONLINE_LABELS.contains(&l)
}
