pub mod c01;

pub fn dispatch(prop: &str, tier: &str, seed: u64, path: Option<&str>) -> i32 {
    let _ = path;
    match prop {
        "C01" => c01::run(tier, seed),
        _ => {
            eprintln!("unknown property {prop}");
            2
        }
    }
}

/// Normalised class of an mpc outcome (no coin-dependent data).
pub fn classify(o: &crate::sim::Outcome<crate::runner::MpcOut>) -> String {
    use crate::sim::Outcome;
    match o {
        Outcome::Done(Ok(_)) => "Ok".into(),
        Outcome::Done(Err(e)) => format!("Err:{}", err_class(e)),
        Outcome::Panic(_, loc) => format!("Panic@{loc}"),
        Outcome::Crashed => "Crashed".into(),
        Outcome::Unfinished => "Unfinished".into(),
    }
}

/// First identifiers of a Debug-formatted error, e.g. `MpcError(InvalidOutputMac`.
pub fn err_class(e: &str) -> String {
    let mut out = String::new();
    let mut depth = 0;
    for ch in e.chars() {
        if ch.is_alphanumeric() || ch == '_' {
            out.push(ch);
        } else if ch == '(' || ch == '{' {
            depth += 1;
            if depth > 2 {
                break;
            }
            out.push('(');
        } else {
            break;
        }
    }
    out.trim_end_matches('(').to_string()
}
