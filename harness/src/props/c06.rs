//! C06 - revealed input bits are hidden by a fresh, unbiased, private mask.
use rand::{Rng, SeedableRng};
use rand_chacha::ChaCha8Rng;
use serde_json::{Value, json};

use crate::circ::Builder;
use crate::codec::{self, Val};
use crate::report::{Report, bits};
use crate::runner::{Case, Exec, exec_mpc, parallel_for, threads};
use crate::sim::{Outcome, RunEnd, SchedKind};

fn opt_vec(ex: &Exec, from: usize, to: usize, label: &str) -> Option<Vec<Option<Val>>> {
    let m = ex.net.msgs.iter().find(|m| m.from == from && m.to == to && ex.net.label(m.label) == label)?;
    let sch = codec::schema_for(label)?;
    match codec::decode_all(&sch, &m.sent)? {
        Val::Vec(items) => Some(items.into_iter().map(|v| if let Val::Opt(Some(b)) = v { Some(*b) } else { None }).collect()),
        _ => None,
    }
}

/// own share bits of party p on its input wires, recovered from the transcript only:
/// masked_input ^ input ^ XOR of the other parties' shares sent to p
fn own_shares(ex: &Exec, n: usize, p: usize, input_regs: &[usize], input: &[bool]) -> Option<Vec<bool>> {
    let other = (0..n).find(|q| *q != p)?;
    let masked = opt_vec(ex, p, other, "masked inputs")?;
    let mut out = vec![];
    let mut wire_shares = vec![];
    for q in (0..n).filter(|q| *q != p) {
        wire_shares.push(opt_vec(ex, q, p, "wire shares")?);
    }
    for (i, w) in input_regs.iter().enumerate() {
        let Some(Val::Bool(mb)) = masked.get(*w)?.as_ref() else { return None };
        let mut v = (*mb != 0) ^ input[i];
        for ws in &wire_shares {
            let Some(Val::Tuple(t)) = ws.get(*w)?.as_ref() else { return None };
            let Val::Bool(b) = t[0] else { return None };
            v ^= b != 0;
        }
        out.push(v);
    }
    Some(out)
}

fn circuit(n: usize, p: usize, k: usize) -> (polytune::garble_lang::register_circuit::Circuit, Vec<usize>) {
    // party p has k inputs, everybody else 2
    let inputs: Vec<usize> = (0..n).map(|q| if q == p { k } else { 2 }).collect();
    let mut b = Builder::new(&inputs);
    let o = (p + 1) % n;
    let mut acc = b.and(b.input(p, 0), b.input(o, 0));
    for i in 1..k.min(6) {
        let x = b.xor(acc, b.input(p, i));
        acc = b.and(x, b.input(o, 1));
    }
    let mut outs = vec![acc];
    outs.push(b.input(o, 1));
    let regs: Vec<usize> = (0..k).map(|i| b.input(p, i).0 as usize).collect();
    (b.finish(outs), regs)
}

struct Bal {
    harness: Option<String>,
    role: &'static str,
    input_value: bool,
    p: usize,
    shares: Vec<bool>,
    deltas: Vec<u128>,
}

fn balance_run(i: usize, seed: u64, n_per: usize) -> Bal {
    // layout: [role][input value][run]
    let role_ix = i / (2 * n_per);
    let input_value = (i / n_per) % 2 == 1;
    let n = 2;
    let p_eval = 0;
    let p = if role_ix == 0 { 0 } else { 1 };
    let role = if p == p_eval { "evaluator" } else { "garbler" };
    let k = 4;
    let (c, regs) = circuit(n, p, k);
    let mut rng = ChaCha8Rng::seed_from_u64(seed ^ 0xc06 ^ (i as u64).wrapping_mul(0x9e3779b97f4a7c15));
    let inputs: Vec<Vec<bool>> = (0..n).map(|q| if q == p { vec![input_value; k] } else { vec![rng.random(), rng.random()] }).collect();
    let mut case = Case::new(c, inputs.clone(), p_eval, vec![0, 1]);
    case.record_probes = true;
    case = case.with_sched(SchedKind::RoundRobin, 0);
    let ex = exec_mpc(case);
    if ex.end != RunEnd::AllFinished || !ex.outcomes.iter().all(|o| matches!(o, Outcome::Done(Ok(_)))) {
        return Bal { harness: Some(format!("honest run failed: {:?}", ex.end)), role, input_value, p, shares: vec![], deltas: vec![] };
    }
    let deltas = ex.probes.iter().filter(|r| r.site == "delta").map(|r| u128::from_le_bytes(r.value[..16].try_into().unwrap())).collect();
    match own_shares(&ex, n, p, &regs, &inputs[p]) {
        Some(shares) => Bal { harness: None, role, input_value, p, shares, deltas },
        None => Bal { harness: Some("could not decode masked inputs / wire shares".into()), role, input_value, p, shares: vec![], deltas },
    }
}

struct Canary {
    harness: Option<String>,
    n: usize,
    p: usize,
    hit: Option<(String, Value)>,
    share_vec: Option<u128>,
    deltas: Vec<u128>,
    msgs_scanned: usize,
    bytes_scanned: usize,
    sample: Value,
}

fn pack(bitsv: &[bool], msb_first: bool) -> Vec<u8> {
    let mut out = vec![0u8; bitsv.len() / 8];
    for (i, b) in bitsv.iter().enumerate() {
        if *b {
            out[i / 8] |= if msb_first { 0x80 >> (i % 8) } else { 1 << (i % 8) };
        }
    }
    out
}

fn bool_leaves(v: &Val, out: &mut Vec<bool>) {
    match v {
        Val::Bool(b) => out.push(*b != 0),
        Val::Opt(Some(i)) => bool_leaves(i, out),
        Val::Tuple(x) | Val::Vec(x) | Val::Arr(x) => x.iter().for_each(|i| bool_leaves(i, out)),
        _ => {}
    }
}

fn find_sub<T: PartialEq>(hay: &[T], needle: &[T]) -> Option<usize> {
    if needle.is_empty() || hay.len() < needle.len() {
        return None;
    }
    (0..=hay.len() - needle.len()).find(|i| &hay[*i..*i + needle.len()] == needle)
}

/// Does `secret` (128 bits) occur in the message as a packed bit run (either bit order), as a run
/// of bool bytes, as a run of decoded bools, or complemented?
fn scan_msg(bytes: &[u8], tree: Option<&Val>, secret: &[bool]) -> Option<String> {
    for compl in [false, true] {
        let s: Vec<bool> = secret.iter().map(|b| *b ^ compl).collect();
        let c = if compl { "complemented " } else { "" };
        for msb in [false, true] {
            if find_sub(bytes, &pack(&s, msb)).is_some() {
                return Some(format!("{c}packed bit run ({})", if msb { "msb first" } else { "lsb first" }));
            }
        }
        let as_bytes: Vec<u8> = s.iter().map(|b| *b as u8).collect();
        if find_sub(bytes, &as_bytes).is_some() {
            return Some(format!("{c}run of bool bytes"));
        }
        if let Some(t) = tree {
            let mut leaves = vec![];
            bool_leaves(t, &mut leaves);
            if find_sub(&leaves, &s).is_some() {
                return Some(format!("{c}run of decoded bools"));
            }
        }
    }
    None
}

fn canary_run(i: usize, seed: u64) -> Canary {
    let mut rng = ChaCha8Rng::seed_from_u64(seed ^ 0xca ^ (i as u64).wrapping_mul(0x9e3779b97f4a7c15));
    let n = 2 + i % 2;
    let p = i % n;
    let p_eval = (i / 2) % n;
    let k = 128;
    let (c, regs) = circuit(n, p, k);
    let secret: Vec<bool> = (0..k).map(|_| rng.random()).collect();
    let inputs: Vec<Vec<bool>> = (0..n).map(|q| if q == p { secret.clone() } else { vec![rng.random(), rng.random()] }).collect();
    let mut case = Case::new(c, inputs.clone(), p_eval, (0..n).collect());
    case.record_probes = true;
    let ex = exec_mpc(case);
    let mut out = Canary { harness: None, n, p, hit: None, share_vec: None, deltas: vec![], msgs_scanned: 0, bytes_scanned: 0, sample: json!(null) };
    if ex.end != RunEnd::AllFinished || !ex.outcomes.iter().all(|o| matches!(o, Outcome::Done(Ok(_)))) {
        out.harness = Some(format!("honest run failed: {:?}", ex.end));
        return out;
    }
    out.deltas = ex.probes.iter().filter(|r| r.site == "delta").map(|r| u128::from_le_bytes(r.value[..16].try_into().unwrap())).collect();
    let shares = own_shares(&ex, n, p, &regs, &secret);
    let Some(shares) = shares else {
        out.harness = Some("could not decode masked inputs / wire shares".into());
        return out;
    };
    out.share_vec = Some(shares.iter().enumerate().fold(0u128, |a, (i, b)| a | ((*b as u128) << i)));
    for m in ex.net.msgs.iter().filter(|m| m.from == p) {
        let label = ex.net.label(m.label);
        let tree = codec::schema_for(label).and_then(|s| codec::decode_all(&s, &m.sent));
        out.msgs_scanned += 1;
        out.bytes_scanned += m.sent.len();
        if let Some(how) = scan_msg(&m.sent, tree.as_ref(), &secret) {
            out.hit = Some((format!("plain input bits of a party appear in its traffic ('{label}', {how})"), json!({"party": p, "to": m.to, "label": label, "k": m.k, "how": how, "input": bits(&secret)})));
            break;
        }
        if let Some(how) = scan_msg(&m.sent, tree.as_ref(), &shares) {
            out.hit = Some((format!("a party's own mask-share vector appears in its traffic ('{label}', {how})"), json!({"party": p, "to": m.to, "label": label, "k": m.k, "how": how})));
            break;
        }
    }
    out.sample = json!({"kind": "canary", "n": n, "party": p, "p_eval": p_eval, "input_bits": 128, "messages_scanned": out.msgs_scanned, "bytes_scanned": out.bytes_scanned});
    out
}

// ---- (5) per-peer independence --------------------------------------------------------------------

/// Labels whose content is legitimately the same for every receiver (verified / unverified broadcasts).
fn is_broadcast_label(l: &str, k: usize) -> bool {
    l.starts_with("broadcast ") || matches!(l, "fashare comm" | "fashare ver" | "fashare di_bi" | "flaand comm" | "flaand hash" | "masked inputs") || ((l == "RNG comm" || l == "RNG ver") && k == 1)
}

/// In a 3- or 4-party run: no high-entropy 16-byte block of what a party sends to one peer may also
/// occur in what it sends to another peer (pairwise messages carry independent randomness per peer).
fn independence_run(i: usize, seed: u64) -> (Option<String>, Option<(String, Value)>, usize, String) {
    let mut rng = ChaCha8Rng::seed_from_u64(seed ^ 0x1d ^ (i as u64).wrapping_mul(0x9e3779b97f4a7c15));
    let n = 3 + i % 2;
    let inputs: Vec<usize> = vec![2; n];
    let mut b = Builder::new(&inputs);
    let mut acc = b.and(b.input(0, 0), b.input(1, 0));
    for p in 2..n {
        acc = b.and(acc, b.input(p, 1));
    }
    // enough AND gates for leaky-AND batches of 80+ positions (masks of that length collide with 2^-80)
    for k in 0..16 {
        let x = b.xor(acc, b.input(k % n, 0));
        acc = b.and(x, b.input((k + 1) % n, 1));
    }
    let c = b.finish(vec![acc]);
    let inp: Vec<Vec<bool>> = (0..n).map(|_| vec![rng.random(), rng.random()]).collect();
    let p_eval = i % n;
    let mut case = Case::new(c, inp, p_eval, (0..n).collect());
    case.record_probes = true;
    let ex = exec_mpc(case);
    let key = format!("independence|n={n}|E={p_eval}");
    if ex.end != RunEnd::AllFinished || !ex.outcomes.iter().all(|o| matches!(o, Outcome::Done(Ok(_)))) {
        return (Some(format!("honest run failed: {:?}", ex.end)), None, 0, key);
    }
    // the party's own leaky-AND masks (probe): drawn independently per receiver
    for p in 0..n {
        let mut per_recv: std::collections::HashMap<usize, Vec<&Vec<u8>>> = Default::default();
        for r in ex.probes.iter().filter(|r| r.site == "fhaand.s" && r.party == Some(p)) {
            per_recv.entry(r.index).or_default().push(&r.value);
        }
        let recvs: Vec<usize> = per_recv.keys().copied().collect();
        for a in &recvs {
            for bq in recvs.iter().filter(|x| *x > a) {
                for (k, (va, vb)) in per_recv[a].iter().zip(&per_recv[bq]).enumerate() {
                    if va.len() >= 64 && va == vb {
                        return (None, Some((
                            "a party uses the same leaky-AND mask bits towards two different peers (its pairwise randomness is not independent per peer)".to_string(),
                            json!({"party": p, "peer_a": a, "peer_b": bq, "haand_call": k, "mask_length": va.len(), "n": n}),
                        )), 0, key);
                    }
                }
            }
        }
    }
    let mut blocks = 0;
    for p in 0..n {
        // block -> (receiver, label)
        let mut seen: std::collections::HashMap<[u8; 16], (usize, u16)> = Default::default();
        for m in ex.net.msgs.iter().filter(|m| m.from == p) {
            let label = ex.net.label(m.label);
            if is_broadcast_label(label, m.k) {
                continue;
            }
            // payload after the 8-byte outer length prefix, in aligned 16-byte blocks at every offset mod 16
            for off in 0..m.sent.len().saturating_sub(15) {
                let blk: [u8; 16] = m.sent[off..off + 16].try_into().unwrap();
                let mut distinct = [false; 256];
                let mut cnt = 0;
                for x in blk {
                    if !distinct[x as usize] { distinct[x as usize] = true; cnt += 1; }
                }
                if cnt < 10 {
                    continue; // low entropy (lengths, tags, zero padding)
                }
                blocks += 1;
                match seen.get(&blk) {
                    Some((to, l)) if *to != m.to => {
                        let other = ex.net.label(*l).to_string();
                        return (None, Some((
                            format!("a party sends the same random-looking 16-byte block to two different peers ('{other}' / '{label}'): its pairwise randomness is not independent per peer"),
                            json!({"party": p, "peer_a": to, "peer_b": m.to, "label_a": other, "label_b": label, "offset_b": off, "n": n}),
                        )), blocks, key);
                    }
                    Some(_) => {}
                    None => { seen.insert(blk, (m.to, m.label)); }
                }
            }
        }
    }
    (None, None, blocks, key)
}

// ---- (4) disclosure correlation -----------------------------------------------------------------

struct Corr {
    harness: Option<String>,
    shares: Vec<bool>,
    inputs: Vec<bool>,
    /// every bit-valued field of the party's outgoing traffic, in transcript order
    public_bits: Vec<bool>,
    /// (label, occurrence, first index in public_bits)
    layout: Vec<(String, usize, usize)>,
}

fn corr_circuit(p: usize, k: usize, ands: usize) -> (polytune::garble_lang::register_circuit::Circuit, Vec<usize>) {
    let inputs: Vec<usize> = (0..2).map(|q| if q == p { k } else { 2 }).collect();
    let mut b = Builder::new(&inputs);
    let o = 1 - p;
    let mut acc = b.and(b.input(p, 0), b.input(o, 0));
    for i in 1..ands {
        let x = b.xor(acc, b.input(p, i % k));
        acc = b.and(x, b.input(o, i % 2));
    }
    let regs: Vec<usize> = (0..k).map(|i| b.input(p, i).0 as usize).collect();
    (b.finish(vec![acc]), regs)
}

fn corr_run(i: usize, seed: u64, p: usize, ands: usize) -> Corr {
    let mut rng = ChaCha8Rng::seed_from_u64(seed ^ 0xc0 ^ (i as u64).wrapping_mul(0x9e3779b97f4a7c15) ^ ((p as u64) << 40) ^ ((ands as u64) << 20));
    let k = 8;
    let (c, regs) = corr_circuit(p, k, ands);
    let secret: Vec<bool> = (0..k).map(|_| rng.random()).collect();
    let inputs: Vec<Vec<bool>> = (0..2).map(|q| if q == p { secret.clone() } else { vec![rng.random(), rng.random()] }).collect();
    let case = Case::new(c, inputs.clone(), 0, vec![0, 1]);
    let ex = exec_mpc(case);
    let mut out = Corr { harness: None, shares: vec![], inputs: secret.clone(), public_bits: vec![], layout: vec![] };
    if ex.end != RunEnd::AllFinished || !ex.outcomes.iter().all(|o| matches!(o, Outcome::Done(Ok(_)))) {
        out.harness = Some(format!("honest run failed: {:?}", ex.end));
        return out;
    }
    match own_shares(&ex, 2, p, &regs, &secret) {
        Some(s) => out.shares = s,
        None => {
            out.harness = Some("could not decode masked inputs / wire shares".into());
            return out;
        }
    }
    for m in ex.net.msgs.iter().filter(|m| m.from == p) {
        let label = ex.net.label(m.label).to_string();
        let Some(tree) = codec::schema_for(&label).and_then(|s| codec::decode_all(&s, &m.sent)) else { continue };
        let start = out.public_bits.len();
        if label == "fashare ver" {
            // the opened check bit is byte 0 of every decommitment
            if let Val::Vec(items) = &tree {
                for it in items {
                    if let Val::Vec(b) = it {
                        if let Some(Val::U8(x)) = b.first() {
                            out.public_bits.push(*x & 1 != 0);
                        }
                    }
                }
            }
        } else {
            bool_leaves(&tree, &mut out.public_bits);
        }
        if out.public_bits.len() > start {
            out.layout.push((label, m.k, start));
        }
    }
    out
}

/// Over N executions: does any bit of the party's traffic agree (or disagree) with its own mask
/// share of an input wire, or with the input bit itself, in (almost) every execution?
fn correlation_part(rep: &mut Report, seed: u64, n_runs: usize, ands: usize) {
    for p in 0..2usize {
        let role = if p == 0 { "evaluator" } else { "garbler" };
        let runs = parallel_for(n_runs, threads(), |i| corr_run(i, seed, p, ands));
        let good: Vec<&Corr> = runs.iter().filter(|r| r.harness.is_none()).collect();
        for r in runs.iter().filter(|r| r.harness.is_some()) {
            rep.evaluations += 1;
            rep.harness_error(r.harness.clone().unwrap_or_default());
        }
        rep.evaluations += good.len() as u64;
        if good.len() < n_runs * 9 / 10 {
            continue;
        }
        let npos = good[0].public_bits.len();
        if good.iter().any(|r| r.public_bits.len() != npos) {
            rep.harness_error("traffic layout differs between executions (judged by C09)");
            continue;
        }
        let n = good.len();
        let t = n / 8; // with n = 128: P(Bin(128, 1/2) <= 16) < 1e-18 per pair
        rep.add("correlation_bit_positions", npos as u64);
        rep.add("correlation_pairs_tested", (npos * good[0].shares.len() * 2) as u64);
        rep.distinct.insert(format!("correlation|{role}|ands={ands}"));
        let label_of = |pos: usize| -> (String, usize, usize) {
            let mut cur = (String::from("?"), 0, 0);
            for (l, k, s) in &good[0].layout {
                if *s <= pos { cur = (l.clone(), *k, pos - *s); } else { break; }
            }
            cur
        };
        for w in 0..good[0].shares.len() {
            for (what, pick) in [("own mask share", 0usize), ("plain input bit", 1usize)] {
                for pos in 0..npos {
                    let mut agree = 0usize;
                    for r in &good {
                        let secret = if pick == 0 { r.shares[w] } else { r.inputs[w] };
                        agree += (r.public_bits[pos] == secret) as usize;
                    }
                    if agree <= t || agree >= n - t {
                        let (label, k, leaf) = label_of(pos);
                        rep.violation(
                            format!("a bit of the {role}'s traffic ('{label}') reveals its {what} of an input wire (agreement in {} of executions)", if agree >= n - t { "almost all" } else { "almost none" }),
                            json!({"role": role, "input_wire": w, "label": label, "occurrence": k, "bit_index_in_message": leaf, "agreement": agree, "executions": n, "and_gates": ands}),
                        );
                        break;
                    }
                }
            }
        }
    }
}

// ---- (6) exact disclosure anywhere in the raw traffic, many input wires ------------------------------

struct Raw {
    harness: Option<String>,
    shares: Vec<bool>,
    inputs: Vec<bool>,
    /// all bytes the party sent, in transcript order
    sent: Vec<u8>,
    /// (label, occurrence, first byte index in `sent`)
    layout: Vec<(String, usize, usize)>,
}

fn raw_run(i: usize, seed: u64, p: usize, k: usize) -> Raw {
    let mut rng = ChaCha8Rng::seed_from_u64(seed ^ 0x4a3 ^ (i as u64).wrapping_mul(0x9e3779b97f4a7c15) ^ ((p as u64) << 40) ^ ((k as u64) << 20));
    let (c, regs) = corr_circuit(p, k, 4);
    let secret: Vec<bool> = (0..k).map(|_| rng.random()).collect();
    let inputs: Vec<Vec<bool>> = (0..2).map(|q| if q == p { secret.clone() } else { vec![rng.random(), rng.random()] }).collect();
    let case = Case::new(c, inputs.clone(), 0, vec![0, 1]);
    let ex = exec_mpc(case);
    let mut out = Raw { harness: None, shares: vec![], inputs: secret.clone(), sent: vec![], layout: vec![] };
    if ex.end != RunEnd::AllFinished || !ex.outcomes.iter().all(|o| matches!(o, Outcome::Done(Ok(_)))) {
        out.harness = Some(format!("honest run failed: {:?}", ex.end));
        return out;
    }
    match own_shares(&ex, 2, p, &regs, &secret) {
        Some(s) => out.shares = s,
        None => {
            out.harness = Some("could not decode masked inputs / wire shares".into());
            return out;
        }
    }
    for m in ex.net.msgs.iter().filter(|m| m.from == p) {
        out.layout.push((ex.net.label(m.label).to_string(), m.k, out.sent.len()));
        out.sent.extend_from_slice(&m.sent);
    }
    out
}

/// Over N <= 64 executions with random inputs of a party with k input wires: no bit at a fixed
/// position of the party's raw traffic equals (or complements) its own mask share of an input wire,
/// or the input bit itself, in every execution.
fn raw_disclosure_part(rep: &mut Report, seed: u64, n_runs: usize, k: usize, p: usize) {
    let role = if p == 0 { "evaluator" } else { "garbler" };
    let runs = parallel_for(n_runs, threads(), |i| raw_run(i, seed, p, k));
    let good: Vec<&Raw> = runs.iter().filter(|r| r.harness.is_none()).collect();
    for r in runs.iter().filter(|r| r.harness.is_some()) {
        rep.evaluations += 1;
        rep.harness_error(r.harness.clone().unwrap_or_default());
    }
    rep.evaluations += good.len() as u64;
    if good.len() < 56 || good.len() > 64 {
        rep.inconclusive("too few executions for the exact-disclosure scan");
        return;
    }
    let nbytes = good[0].sent.len();
    if good.iter().any(|r| r.sent.len() != nbytes || r.layout.len() != good[0].layout.len()) {
        rep.harness_error("traffic layout differs between executions (judged by C09)");
        return;
    }
    let n = good.len();
    let full: u64 = if n == 64 { u64::MAX } else { (1u64 << n) - 1 };
    // per-wire vectors over the executions
    let mut keys: std::collections::HashMap<u64, (usize, &'static str, bool)> = Default::default();
    for w in 0..k {
        let mut sv = 0u64;
        let mut iv = 0u64;
        for (e, r) in good.iter().enumerate() {
            sv |= (r.shares[w] as u64) << e;
            iv |= (r.inputs[w] as u64) << e;
        }
        keys.insert(sv, (w, "own mask share", false));
        keys.insert(!sv & full, (w, "own mask share", true));
        keys.insert(iv, (w, "plain input bit", false));
        keys.insert(!iv & full, (w, "plain input bit", true));
    }
    rep.add("raw_disclosure_bit_positions", (nbytes * 8) as u64);
    rep.add("raw_disclosure_wires", k as u64);
    rep.distinct.insert(format!("raw-disclosure|{role}|inputs={k}"));
    let sent: Vec<&[u8]> = good.iter().map(|r| r.sent.as_slice()).collect();
    let hits = crate::leak::fixed_position_hits(&sent, &keys);
    let label_of = |pos: usize| -> (String, usize, usize) {
        let mut cur = (String::from("?"), 0, 0);
        for (l, kk, s) in &good[0].layout {
            if *s <= pos { cur = (l.clone(), *kk, pos - *s); } else { break; }
        }
        cur
    };
    let mut reported: std::collections::HashSet<(String, &'static str)> = Default::default();
    let mut total = 0usize;
    for (b, bit, (w, what, compl)) in hits {
        total += 1;
        let (label, kk, off) = label_of(b);
        if reported.insert((label.clone(), what)) {
            rep.violation(
                format!("a bit at a fixed position of the {role}'s raw traffic ('{label}') equals its {what} of an input wire in every execution"),
                json!({"role": role, "input_wire": w, "complemented": compl, "label": label, "occurrence": kk, "byte_in_message": off, "bit": bit, "executions": n, "input_wires": k}),
            );
        }
    }
    rep.add("raw_disclosure_hits", total as u64);
}

// ---- (7) what a peer's view determines through the opened aBit check parities ------------------------

const RHO: usize = 40;
const ABIT_CHECKS: usize = 3 * RHO;

#[derive(Clone)]
struct Gf2Row(Vec<u64>);

impl Gf2Row {
    fn new(cols: usize) -> Self { Gf2Row(vec![0; (cols + 1).div_ceil(64)]) }
    fn get(&self, i: usize) -> bool { self.0[i / 64] >> (i % 64) & 1 == 1 }
    fn flip(&mut self, i: usize) { self.0[i / 64] ^= 1 << (i % 64); }
    fn xor(&mut self, o: &Gf2Row) { for (a, b) in self.0.iter_mut().zip(&o.0) { *a ^= *b; } }
}

/// Gaussian elimination with the columns in `order`; returns the rows of the echelon form whose
/// leading column is at index >= `tail_from` of `order` (relations that only involve tail columns).
fn relations_in_tail(mut rows: Vec<Gf2Row>, order: &[usize], tail_from: usize) -> Vec<Gf2Row> {
    let mut next = 0;
    let mut out = vec![];
    for (oi, c) in order.iter().enumerate() {
        let Some(p) = (next..rows.len()).find(|&r| rows[r].get(*c)) else { continue };
        rows.swap(next, p);
        let pivot = rows[next].clone();
        for (r, row) in rows.iter_mut().enumerate() {
            if r != next && row.get(*c) { row.xor(&pivot); }
        }
        if oi >= tail_from { out.push(rows[next].clone()); }
        next += 1;
    }
    out
}

fn raw_msg<'a>(ex: &'a Exec, from: usize, to: usize, label: &str, k: usize) -> Option<&'a [u8]> {
    ex.net.msgs.iter().find(|m| m.from == from && m.to == to && m.k == k && ex.net.label(m.label) == label).map(|m| m.sent.as_slice())
}

struct ViewOut {
    harness: Option<String>,
    key: String,
    /// (victim, observer, support (input indices of the victim), value) of every relation found
    relations: Vec<(usize, usize, Vec<usize>, bool)>,
    pairs: usize,
    equations: usize,
    validated: usize,
    sample: Value,
}

/// One honest execution of a tiny circuit; for every (victim, observer) pair: the GF(2) system an
/// observer can set up from its own view - the public check vectors r_j (expanded from the opened
/// coin-toss seed), the victim's opened parities <r_j, x> ('fabitn'), the victim's opened aShare check
/// bits ('fashare ver') and the victim's shares of the observer's input wires ('wire shares') - is
/// reduced; the view must not determine any GF(2)-linear relation among the victim's own mask shares of
/// its input wires (in particular not a single one of them).
fn abit_view_run(i: usize, seed: u64) -> ViewOut {
    use polytune::garble_lang::register_circuit::Op;
    let mut rng = ChaCha8Rng::seed_from_u64(seed ^ 0xab17 ^ (i as u64).wrapping_mul(0x9e3779b97f4a7c15));
    let n = 2 + (i % 3 == 2) as usize;
    let ins: Vec<usize> = (0..n).map(|_| 1 + (rng.random_range(0..6usize) / 2) % 3).collect();
    let ands = rng.random_range(0..3usize) + (i % 7 == 0) as usize * 30;
    let mut b = Builder::new(&ins);
    let mut acc = b.input(0, 0);
    let mut outs = vec![];
    for a in 0..ands {
        let q = (a + 1) % n;
        let y = b.input(q, a % ins[q]);
        let t = b.and(acc, y);
        acc = b.xor(t, b.input(a % n, 0));
        if a % 2 == 0 { outs.push(t); }
    }
    outs.push(acc);
    let c = b.finish(outs);
    let inputs: Vec<Vec<bool>> = ins.iter().map(|k| (0..*k).map(|_| rng.random()).collect()).collect();
    let p_eval = rng.random_range(0..n);
    let key = format!("abit-view|n={n}|inputs={:?}|ands={}", ins, if ands >= 30 { "30+".to_string() } else { ands.to_string() });
    let mut case = Case::new(c.clone(), inputs.clone(), p_eval, (0..n).collect());
    case.record_probes = true;
    let ex = exec_mpc(case);
    let mut out = ViewOut { harness: None, key, relations: vec![], pairs: 0, equations: 0, validated: 0, sample: json!(null) };
    if ex.end != RunEnd::AllFinished || !ex.outcomes.iter().all(|o| matches!(o, Outcome::Done(Ok(_)))) {
        out.harness = Some(format!("honest run failed: {:?}", ex.end));
        return out;
    }
    // position of every input wire in the first batch of random shares (instruction order)
    let mut pos_of: Vec<Vec<usize>> = ins.iter().map(|k| vec![usize::MAX; *k]).collect();
    let mut pos = 0usize;
    for inst in &c.insts {
        match &inst.op {
            Op::Input(inp) => { pos_of[inp.party as usize][inp.input as usize] = pos; pos += 1; }
            Op::And(_) => pos += 1,
            _ => {}
        }
    }
    let secret_bits = pos;
    // the public seed of the multi-party coin toss = XOR of all openings (occurrence 1 of 'RNG ver')
    let mut mseed = [0u8; 32];
    for q in 0..n {
        let to = (q + 1) % n;
        let Some(m) = raw_msg(&ex, q, to, "RNG ver", 1) else { out.harness = Some("no multi-party 'RNG ver'".into()); return out };
        if m.len() != 40 { out.harness = Some("unexpected 'RNG ver' layout".into()); return out; }
        for (s, b) in mseed.iter_mut().zip(&m[8..]) { *s ^= *b; }
    }
    let mut akey = [0u8; 16];
    {
        use rand::RngCore;
        rand_chacha::ChaCha20Rng::from_seed(mseed).fill_bytes(&mut akey);
    }
    for v in 0..n {
        for o in (0..n).filter(|o| *o != v) {
            out.pairs += 1;
            let Some(kos) = raw_msg(&ex, v, o, "KOS_OT_corr", 0) else { out.harness = Some("no 'KOS_OT_corr'".into()); return out };
            let lprime = u64::from_le_bytes(kos[..8].try_into().unwrap()) as usize;
            if lprime < secret_bits + RHO || secret_bits > 1000 { out.harness = Some("unexpected aBit length".into()); return out; }
            let pads_from = secret_bits + RHO;
            let blocks = lprime.div_ceil(128);
            let stream = prim::ctr_keystream(akey, ABIT_CHECKS * blocks * 16);
            let Some(par) = raw_msg(&ex, v, o, "fabitn", 0) else { out.harness = Some("no 'fabitn'".into()); return out };
            if par.len() != 8 + ABIT_CHECKS * 17 { out.harness = Some("unexpected 'fabitn' layout".into()); return out; }
            let Some(ver) = raw_msg(&ex, v, o, "fashare ver", 0) else { out.harness = Some("no 'fashare ver'".into()); return out };
            let Some(Val::Vec(ver)) = codec::schema_for("fashare ver").and_then(|s| codec::decode_all(&s, ver)) else { out.harness = Some("undecodable 'fashare ver'".into()); return out };
            if ver.len() != RHO { out.harness = Some("unexpected 'fashare ver' layout".into()); return out; }
            // model validation against the probed x of the victim (hooks): every parity equation holds
            let x_true: Option<Vec<bool>> = ex.probes.iter().find(|r| r.site == "fabitn.x" && r.index == v).map(|r| r.value.iter().map(|b| *b != 0).collect());
            let mut rows = vec![];
            for j in 0..ABIT_CHECKS {
                let mut row = Gf2Row::new(lprime);
                for k in 0..lprime {
                    let byte = stream[(j * blocks + k / 128) * 16 + (k % 128) / 8];
                    if byte >> (k % 8) & 1 == 1 { row.flip(k); }
                }
                if par[8 + j * 17] & 1 == 1 { row.flip(lprime); }
                if let Some(x) = &x_true {
                    if x.len() != lprime { out.harness = Some("probed x has another length than the OT".into()); return out; }
                    let lhs = (0..lprime).fold(false, |a, k| a ^ (row.get(k) & x[k]));
                    if lhs != row.get(lprime) { out.harness = Some("observer model does not reproduce the opened parities (check-vector expansion differs)".into()); return out; }
                    out.validated += 1;
                }
                rows.push(row);
            }
            for (r, dm) in ver.iter().enumerate() {
                let Val::Vec(bytes) = dm else { out.harness = Some("unexpected 'fashare ver' entry".into()); return out };
                let Some(Val::U8(b0)) = bytes.first() else { out.harness = Some("empty 'fashare ver' entry".into()); return out };
                let mut row = Gf2Row::new(lprime);
                row.flip(secret_bits + r);
                if b0 & 1 == 1 { row.flip(lprime); }
                rows.push(row);
            }
            // the victim's shares of the observer's input wires are sent to the observer
            if let Some(ws) = opt_vec(&ex, v, o, "wire shares") {
                for (ii, ppos) in pos_of[o].iter().enumerate() {
                    let reg = c.insts.iter().find_map(|inst| if let Op::Input(inp) = &inst.op { if inp.party as usize == o && inp.input as usize == ii { Some(inst.out.0 as usize) } else { None } } else { None });
                    if let Some(Some(Val::Tuple(t))) = reg.and_then(|r| ws.get(r)) {
                        if let Val::Bool(bit) = t[0] {
                            let mut row = Gf2Row::new(lprime);
                            row.flip(*ppos);
                            if bit != 0 { row.flip(lprime); }
                            rows.push(row);
                        }
                    }
                }
            }
            out.equations += rows.len();
            // eliminate everything but the victim's own input-wire positions first
            let tail: Vec<usize> = pos_of[v].clone();
            let mut order: Vec<usize> = (0..lprime).filter(|k| !tail.contains(k)).collect();
            let tail_from = order.len();
            order.extend(&tail);
            let _ = pads_from;
            for rel in relations_in_tail(rows, &order, tail_from) {
                let support: Vec<usize> = (0..tail.len()).filter(|ii| rel.get(tail[*ii])).collect();
                let value = rel.get(lprime);
                // cross-check with the party's real shares (probe); a mismatch is a modelling error
                if let Some(x) = &x_true {
                    let real = support.iter().fold(false, |a, ii| a ^ x[tail[*ii]]);
                    if real != value { out.harness = Some("relation derived by the observer model does not hold for the real shares".into()); return out; }
                }
                out.relations.push((v, o, support, value));
            }
        }
    }
    out.sample = json!({"n": n, "inputs_per_party": ins, "and_gates": ands, "p_eval": p_eval, "secret_bits_first_batch": secret_bits, "observer_victim_pairs": out.pairs, "equations": out.equations, "parity_equations_validated_against_probe": out.validated, "relations_found": out.relations.len()});
    out
}

fn abit_view_part(rep: &mut Report, seed: u64, n_runs: usize) {
    let outs = parallel_for(n_runs, threads(), |i| abit_view_run(i, seed));
    let mut reported: std::collections::HashSet<String> = Default::default();
    for o in outs {
        rep.evaluations += 1;
        if let Some(h) = o.harness {
            rep.harness_error(h);
            continue;
        }
        rep.distinct.insert(o.key.clone());
        rep.add("abit_view_observer_victim_pairs", o.pairs as u64);
        rep.add("abit_view_equations", o.equations as u64);
        rep.add("abit_view_parities_validated_against_probe", o.validated as u64);
        rep.add("abit_view_relations_found", o.relations.len() as u64);
        for (v, ob, support, value) in &o.relations {
            let kind = if support.len() == 1 { "the party's own mask share of one of its input wires" } else { "a linear relation among the party's own mask shares of its input wires" };
            let sig = format!("the view of a single peer in an honest execution determines {kind} (opened aBit check parities)");
            if reported.insert(sig.clone()) || rep.samples.len() < 3 {
                rep.violation(sig, json!({"run": o.sample, "party": v, "observer": ob, "input_wires_in_relation": support, "xor_of_their_mask_shares": value}));
            } else {
                rep.violation(sig, json!({"party": v, "observer": ob, "input_wires_in_relation": support.len()}));
            }
        }
        if o.relations.is_empty() && rep.evaluations % 97 == 3 {
            rep.sample(o.sample);
        }
    }
}

pub fn run(tier: &str, seed: u64) -> i32 {
    let thorough = tier == "thorough";
    let mut rep = Report::new("C06", tier, seed, "exploration");
    let n_per = if thorough { 2048 } else { 256 };
    let (lo, hi) = (n_per * 48 / 256, n_per * 208 / 256);
    rep.rule = format!("(1) balance: for the evaluator and a garbler (n=2), {n_per} executions with all own inputs 0 and {n_per} with all 1; per input wire the party's own mask share, recovered from the transcript only as masked_input ^ input ^ XOR of the others' shares, must be 1 in [{lo}, {hi}] of the executions. (2) canary: 128 random input bits must not occur in any message the party sends as packed bit run (either bit order), bool-byte run, decoded-bool run, nor complemented; the same for its own share vector. (3) freshness: all global keys (probe) and all 128-bit own-share vectors over all executions pairwise distinct. (5) per-peer independence: in 3- and 4-party runs no random-looking 16-byte block of a party's pairwise (non-broadcast) traffic to one peer occurs in its traffic to another peer, and (probe fhaand.s) its leaky-AND mask vectors of 64+ bits towards two peers differ. (4) disclosure: over 128+ executions with random inputs (3-AND circuit and a 1000-AND circuit whose preprocessing batches are full) no bit-valued field at a fixed position of the party's traffic (decoded bools, opened aShare check bits) agrees or disagrees with its own mask share of an input wire, or with the input bit, in more than 7/8 of the executions. (6) exact disclosure: over 64 executions with random inputs of a party with 9300 and 12345 input wires (aBit batches longer than 1024; thorough: also 1500, 9217, 10241, 18500 and 25000; both roles) no bit at any fixed position of the party's raw traffic (every byte of every message, incl. the packed OT-extension columns) equals or complements its own mask share of an input wire, or the input bit, in all 64 executions (chance match probability below 1e-6 per run). (7) observer model: in honest executions of tiny circuits (1-3 input bits per party, 0-3 or 30+ AND gates, n = 2 or 3) the GF(2) system a single peer can set up from its own view (public aBit check vectors expanded from the opened coin-toss seed, the party's opened parities, opened aShare check bits, shares sent to the observer) must not determine any linear relation among the party's own mask shares of its input wires; the model is validated per execution against the probed bit string (every parity equation must hold). distinct = (role, input value, wire) cells of the balance test plus canary configurations (n, party, evaluator); non-trivial = the cell was filled from decoded transcripts");
    rep.assumptions = vec![format!("fixed thresholds: honest false-alarm probability below 1e-20 per wire at N={n_per}; biases smaller than the thresholds and computational distinguishers are not detected")];
    // (1)
    let total = 2 * 2 * n_per;
    let outs = parallel_for(total, threads(), |i| balance_run(i, seed, n_per));
    let mut counts: std::collections::BTreeMap<(String, bool, usize), (usize, usize)> = Default::default();
    let mut deltas: Vec<u128> = vec![];
    for o in outs {
        rep.evaluations += 1;
        if let Some(h) = o.harness {
            rep.harness_error(h);
            continue;
        }
        deltas.extend(o.deltas);
        let _ = o.p;
        for (w, b) in o.shares.iter().enumerate() {
            let e = counts.entry((o.role.to_string(), o.input_value, w)).or_insert((0, 0));
            e.0 += *b as usize;
            e.1 += 1;
        }
    }
    let mut cells = vec![];
    for ((role, iv, w), (ones, tot)) in &counts {
        cells.push(json!({"role": role, "input": *iv as u8, "wire": w, "ones": ones, "runs": tot}));
        if *tot * 10 >= n_per * 9 {
            rep.distinct.insert(format!("balance|{role}|{}|w{w}", *iv as u8));
            let (l, h) = (tot * 48 / 256, tot * 208 / 256);
            if *ones < l || *ones > h {
                rep.violation(
                    format!("own mask share of the {role} is biased (input {}): outside the fixed balance interval", *iv as u8),
                    json!({"role": role, "input": iv, "wire": w, "ones": ones, "runs": tot, "interval": [l, h]}),
                );
            }
        }
    }
    rep.set("balance_cells", json!(cells));
    // (2) + (3)
    let n_canary = if thorough { 600 } else { 64 };
    let outs = parallel_for(n_canary, threads(), |i| canary_run(i, seed));
    let mut share_vecs: Vec<u128> = vec![];
    let mut scanned = 0u64;
    for o in outs {
        rep.evaluations += 1;
        if let Some(h) = o.harness {
            rep.harness_error(h);
            continue;
        }
        deltas.extend(o.deltas);
        scanned += o.msgs_scanned as u64;
        if let Some(s) = o.share_vec {
            share_vecs.push(s);
        }
        rep.distinct.insert(format!("canary|n={}|p={}", o.n, o.p));
        if let Some((sig, w)) = o.hit {
            rep.violation(sig, w);
        } else if rep.samples.len() < 3 {
            rep.sample(o.sample);
        }
    }
    rep.set("canary_messages_scanned", json!(scanned));
    rep.set("global_keys_observed", json!(deltas.len()));
    rep.set("own_share_vectors_observed", json!(share_vecs.len()));
    if crate::hooks::HOOKS_ON && deltas.is_empty() {
        rep.harness_error("no delta probe observed");
    }
    let mut d = deltas.clone();
    d.sort();
    if d.windows(2).any(|w| w[0] == w[1]) {
        rep.violation("two executions / parties used the same global key", json!({"keys_observed": deltas.len()}));
    }
    let mut s = share_vecs.clone();
    s.sort();
    if s.windows(2).any(|w| w[0] == w[1]) {
        rep.violation("two executions used the same 128-bit own mask-share vector", json!({"vectors_observed": share_vecs.len()}));
    }
    rep.sample(json!({"kind": "balance", "cells": cells.iter().take(4).collect::<Vec<_>>()}));
    // (5) per-peer independence
    let n_ind = if thorough { 64 } else { 12 };
    let outs = parallel_for(n_ind, threads(), |i| independence_run(i, seed));
    let mut blocks = 0u64;
    for (harness, viol, b, key) in outs {
        rep.evaluations += 1;
        if let Some(h) = harness { rep.harness_error(h); continue; }
        blocks += b as u64;
        rep.distinct.insert(key);
        if let Some((sig, w)) = viol { rep.violation(sig, w); }
    }
    rep.set("independence_blocks_compared", json!(blocks));
    // (4) disclosure correlation, on a small circuit and on one whose preprocessing batches are full
    let n_corr = if thorough { 256 } else { 128 };
    correlation_part(&mut rep, seed, n_corr, 3);
    correlation_part(&mut rep, seed, n_corr, 1000);
    if thorough {
        correlation_part(&mut rep, seed ^ 0x55, n_corr, 2100);
    }
    // (6) exact disclosure in the raw traffic with more than 9216 wires (aBit batches longer than 1024)
    let t6 = std::time::Instant::now();
    for p in 0..2 {
        raw_disclosure_part(&mut rep, seed, 64, 9300, p);
    }
    raw_disclosure_part(&mut rep, seed ^ 0x77, 64, 12_345, (seed % 2) as usize);
    if thorough {
        raw_disclosure_part(&mut rep, seed ^ 0x77, 64, 12_345, ((seed + 1) % 2) as usize);
        for (j, k) in [1500usize, 9217, 10_241, 18_500, 25_000].into_iter().enumerate() {
            for p in 0..2 {
                raw_disclosure_part(&mut rep, seed ^ (0x99 + j as u64), 64, k, p);
            }
        }
    }
    rep.set("raw_disclosure_wall_s", json!(t6.elapsed().as_secs_f64()));
    // (7) what a single peer's view determines through the opened aBit check parities
    abit_view_part(&mut rep, seed, if thorough { 6000 } else { 600 });
    rep.finish()
}
