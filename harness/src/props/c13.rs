//! C13 - server core: compatible policies always run to exactly one correct result each.
use serde_json::{Value, json};

use crate::report::Report;
use crate::server::{self, Program, RunRecord, Scenario, Strategy};
use crate::shard::{self, CaseResult};

#[derive(Clone)]
pub struct Root {
    pub prog: Program,
    pub leader: usize,
    /// output destination present per party
    pub out_mask: Vec<bool>,
    pub inputs: Vec<u64>,
    /// "dfs" | "random"
    pub mode: &'static str,
    pub budget: usize,
    pub seed: u64,
}

pub fn scenario_for(r: &Root, strategy: Strategy, comp_id: u128) -> Scenario {
    let pols = (0..r.prog.parties).map(|p| server::policy_for(&r.prog, comp_id, p, r.leader, r.inputs[p], r.out_mask[p])).collect();
    Scenario { policies: vec![pols], concurrency: 2, strategy, gate_msgs: true, gate_replies: false, fail_rpc: None, injections: vec![], skip_schedule: vec![], max_steps: 20_000, fail_outputs: false, alt_policies: vec![], hold_msgs_of_after_cancel: None }
}

/// The C13 oracle on one quiescent execution of one computation.
pub fn judge(rec: &RunRecord, prog: &Program, inputs: &[u64], out_mask: &[bool], comp: usize, budget: usize) -> Option<(String, Value)> {
    let expected = server::expected_literal(prog, inputs);
    for s in rec.schedule.iter().filter(|s| s.comp == comp) {
        match &s.result {
            Some(r) if r == "Ok" => {}
            Some(r) => return Some((format!("schedule call of a compatible policy returned {}", r.split('(').next().unwrap_or(r)), json!({"party": s.party, "result": r}))),
            None => return Some(("schedule call of a compatible policy never returned although the system is quiescent".into(), json!({"party": s.party}))),
        }
    }
    for p in 0..prog.parties {
        let outs: Vec<_> = rec.outputs.iter().filter(|o| o.comp == comp && o.party == p).collect();
        if out_mask[p] {
            if outs.len() != 1 {
                return Some((format!("a party with an output destination received {} results instead of exactly one", outs.len()), json!({"party": p, "outputs": outs.iter().map(|o| format!("{:?}", o.result)).collect::<Vec<_>>() })));
            }
            match &outs[0].result {
                Ok(v) if *v == expected => {}
                Ok(v) => return Some(("the delivered result differs from the program evaluated in the clear".into(), json!({"party": p, "got": v, "expected": expected}))),
                Err(e) => return Some((format!("the output destination received an error ({}) for compatible policies", e.split('(').next().unwrap_or(e)), json!({"party": p, "error": e}))),
            }
        } else if !outs.is_empty() {
            return Some(("a party without an output destination sent a result".into(), json!({"party": p})));
        }
    }
    for (c, p, finished, panicked) in &rec.actors {
        if *c != comp { continue; }
        if *panicked {
            return Some(("a state machine panicked".into(), json!({"party": p})));
        }
        if !*finished {
            return Some(("a state machine did not stop after the computation".into(), json!({"party": p})));
        }
    }
    if rec.permits.iter().any(|x| *x != budget) {
        return Some(("a concurrency permit was not released after the computation".into(), json!({"permits": rec.permits, "budget": budget})));
    }
    None
}

pub fn roots(tier: &str, seed: u64) -> Vec<Root> {
    let thorough = tier == "thorough";
    let mut v = vec![];
    let mut k = 0u64;
    let only = std::env::var("PV_ONLY_PROGRAM").ok();
    for prog in server::programs().into_iter().chain(server::zero_bit_programs()).filter(|p| only.as_deref().map(|o| o == p.name).unwrap_or(true)) {
        let n = prog.parties;
        for leader in 0..n {
            let masks: Vec<Vec<bool>> = if n == 2 {
                vec![vec![true, true], vec![true, false], vec![false, true], vec![false, false]]
            } else {
                vec![vec![true, true, true], vec![true, false, false], vec![false, true, true], vec![false, false, false]]
            };
            for (mi, m) in masks.iter().enumerate() {
                if !thorough && mi > 1 && (leader + mi + prog.name.len()) % 2 == 0 {
                    continue;
                }
                k += 1;
                let inputs: Vec<u64> = (0..n as u64).map(|p| (seed.wrapping_mul(31) + k * 17 + p * 101) % 256).collect();
                let dfs_budget = if n == 2 { if thorough { 600 } else { 120 } } else if thorough { 900 } else { 40 };
                v.push(Root { prog: prog.clone(), leader, out_mask: m.clone(), inputs: inputs.clone(), mode: "dfs", budget: dfs_budget, seed: seed ^ k });
                v.push(Root { prog: prog.clone(), leader, out_mask: m.clone(), inputs: inputs.clone(), mode: "random", budget: if thorough { 60 } else { 12 }, seed: seed ^ (k << 20) });
                if mi == 0 {
                    // every answer of a coordination RPC is overtaken by everything else
                    v.push(Root { prog: prog.clone(), leader, out_mask: m.clone(), inputs: inputs.clone(), mode: "replies-last", budget: 1, seed: seed ^ (k << 28) ^ 0x7a });
                }
                if mi < 2 {
                    // answers of coordination RPCs travel independently of requests (separately gated)
                    v.push(Root { prog: prog.clone(), leader, out_mask: m.clone(), inputs, mode: "random-replies", budget: if thorough { 80 } else { 12 }, seed: seed ^ (k << 24) ^ 0x5e });
                }
            }
        }
    }
    v
}

pub fn run_root(r: &Root) -> Value {
    let mut execs = 0u64;
    let mut violations: Vec<Value> = vec![];
    let mut inconclusive: Vec<String> = vec![];
    let mut schedules = std::collections::BTreeSet::new();
    let mut rpcs_released = 0u64;
    let mut complete = false;
    let mut sample = Value::Null;
    let mut once = |strategy: Strategy, execs: &mut u64| -> Option<(Vec<usize>, Vec<usize>)> {
        let mut sc = scenario_for(r, strategy, 0x1000 + *execs as u128);
        sc.gate_replies = r.mode == "random-replies" || r.mode == "replies-last";
        let rec = server::explore(&sc);
        *execs += 1;
        rpcs_released += rec.rpcs.iter().filter(|x| x.fate == "delivered").count() as u64;
        schedules.insert(format!("{:?}", rec.choices));
        if !rec.quiescent {
            inconclusive.push(rec.end.clone());
            return Some((rec.choices.clone(), rec.branching.clone()));
        }
        if let Some((sig, w)) = judge(&rec, &r.prog, &r.inputs, &r.out_mask, 0, 2) {
            if violations.len() < 3 {
                violations.push(json!({"signature": sig, "witness": w, "record": server::record_json(&rec)}));
            }
        } else if sample.is_null() {
            sample = json!({"program": r.prog.name, "leader": r.leader, "output_destinations": r.out_mask, "inputs": r.inputs, "mode": r.mode,
                "choices": rec.choices, "branching": rec.branching, "coordination_rpcs": rec.rpcs.iter().filter(|x| x.kind != server::RpcKind::Msg && x.fate != "unused").count(),
                "mpc_msg_rpcs": rec.msg_calls, "outputs": rec.outputs.iter().map(|o| json!({"party": o.party, "result": format!("{:?}", o.result)})).collect::<Vec<_>>()});
        }
        Some((rec.choices, rec.branching))
    };
    if r.mode == "dfs" {
        let mut stack: Vec<Vec<usize>> = vec![vec![]];
        while let Some(prefix) = stack.pop() {
            if execs as usize >= r.budget {
                stack.push(prefix);
                break;
            }
            let Some((choices, branching)) = once(Strategy::Script(prefix.clone()), &mut execs) else { break };
            for j in (prefix.len()..choices.len()).rev() {
                for a in (choices[j] + 1)..branching[j] {
                    let mut p: Vec<usize> = choices[..j].to_vec();
                    p.push(a);
                    stack.push(p);
                }
            }
        }
        complete = stack.is_empty();
    } else if r.mode == "replies-last" {
        once(Strategy::RepliesLast, &mut execs);
    } else {
        for k in 0..r.budget {
            once(Strategy::Random(r.seed ^ (k as u64).wrapping_mul(0x9e3779b97f4a7c15)), &mut execs);
        }
    }
    json!({"program": r.prog.name, "n": r.prog.parties, "leader": r.leader, "out_mask": r.out_mask, "mode": r.mode, "executions": execs,
        "distinct_schedules": schedules.len(), "dfs_complete": complete, "violations": violations, "inconclusive": inconclusive, "rpcs_released": rpcs_released, "sample": sample})
}

pub fn child(tier: &str, seed: u64, a: shard::ShardArgs) {
    crate::sim::set_quiet_panics(true);
    let rs = roots(tier, seed);
    shard::child_loop(rs.len(), a.shard, a.of, a.from, |i| run_root(&rs[i]));
}

pub fn run(tier: &str, seed: u64) -> i32 {
    let mut rep = Report::new("C13", tier, seed, "exploration");
    rep.rule = "real PolicyState actors behind a gated in-process PolicyClient on a paused-clock current-thread runtime; per (program with constants from none/some/all parties, leader, output-destination mask): depth-first enumeration of schedule-arrival and coordination-RPC delivery orders by stateless re-execution (complete for n=2 within the budget, bounded for n=3 in quick) plus seeded random orders that also interleave the MPC messages, seeded random orders in which the answers of coordination RPCs are delivered as separate decisions, and one order per (program, leader) in which every answer is overtaken by everything else (requests and MPC messages first). Oracle at exact quiescence: every schedule Ok, exactly one output per destination and equal to the native reference of the program, no output elsewhere, every actor stopped without panic, all permits back. distinct = (program, leader, mask, order of choices); non-trivial = the execution had at least one branching point".into();
    rep.assumptions = vec!["quiescence = runtime idle under the paused clock, no pending delivery, no extra OS thread (/proc/self/task)".into(), "MPC message deliveries do not branch in the DFS (oldest first); random mode interleaves them".into()];
    let rs = roots(tier, seed);
    let results = shard::run_parent_with_limit("C13", tier, seed, rs.len(), crate::runner::threads(), &[], 3600.0);
    let mut complete_roots = 0u64;
    let mut dfs_roots = 0u64;
    for (r, res) in rs.iter().zip(results) {
        match res {
            CaseResult::Aborted(d, e) => rep.harness_error(format!("explorer process died ({d}) for {} leader {}: {e}", r.prog.name, r.leader)),
            CaseResult::Done(v) => {
                let ex = v["executions"].as_u64().unwrap_or(0);
                rep.evaluations += ex;
                rep.add("rpcs_released", v["rpcs_released"].as_u64().unwrap_or(0));
                for i in v["inconclusive"].as_array().cloned().unwrap_or_default() {
                    rep.inconclusive(i.as_str().unwrap_or("?"));
                }
                for k in 0..v["distinct_schedules"].as_u64().unwrap_or(0) {
                    rep.distinct.insert(format!("{}|L{}|{:?}|{}|{k}", r.prog.name, r.leader, r.out_mask, r.mode));
                }
                if r.mode == "dfs" {
                    dfs_roots += 1;
                    if v["dfs_complete"].as_bool().unwrap_or(false) {
                        complete_roots += 1;
                    }
                }
                for viol in v["violations"].as_array().cloned().unwrap_or_default() {
                    rep.violation(viol["signature"].as_str().unwrap_or("?").to_string(), json!({"program": r.prog.name, "leader": r.leader, "out_mask": r.out_mask, "witness": viol["witness"], "record": viol["record"]}));
                }
                if !v["sample"].is_null() && rep.evaluations % 7 == 0 {
                    rep.sample(v["sample"].clone());
                } else if rep.samples.is_empty() && !v["sample"].is_null() {
                    rep.sample(v["sample"].clone());
                }
            }
        }
    }
    rep.set("dfs_roots", json!(dfs_roots));
    rep.set("dfs_roots_enumerated_completely", json!(complete_roots));
    rep.set("exhaustive", json!(false));
    rep.finish()
}
