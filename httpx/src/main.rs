//! C14 at the HTTP layer: real polytune-http-server instances on loopback sockets, a 2-party run per
//! scenario and one stray request (duplicate / ill-typed schedule, run, constants, validate, MPC message
//! with in-range, own and out-of-range sender index, unknown computation ids) at a chosen moment.
//! Prints one JSON line per scenario; the verdicts are made by `pv C14`.
use std::sync::{Arc, Mutex};
use std::time::{Duration, Instant};

use axum::{Router, body::Bytes, extract::State, http::Uri, routing::post};
use polytune_http_server::{Server, ServerOpts};
use serde_json::{Value, json};
use url::Url;
use uuid::Uuid;

type Outs = Arc<Mutex<Vec<(String, Value, f64)>>>;

async fn output(State((outs, t0)): State<(Outs, Instant)>, uri: Uri, body: Bytes) {
    let v: Value = serde_json::from_slice(&body).unwrap_or(json!({"undecodable": body.len()}));
    outs.lock().unwrap().push((uri.path().to_string(), v, t0.elapsed().as_secs_f64()));
}

async fn start_servers(n: usize) -> Vec<Url> {
    let mut urls = vec![];
    for _ in 0..n {
        let opts = ServerOpts { concurrency: 4, tmp_dir: None, jwt_conf: None, cancel: None };
        let mut server = Server::new_with_opts("127.0.0.1:0".parse().unwrap(), opts);
        let addr = server.bind_socket().await.expect("bind");
        urls.push(Url::parse(&format!("http://{addr}")).unwrap());
        tokio::spawn(async move {
            let _ = server.start().await;
        });
    }
    tokio::time::sleep(Duration::from_millis(100)).await;
    urls
}

fn policy(id: Uuid, parts: &[Url], program: &str, leader: usize, party: usize, input: u64, out: &Url) -> Value {
    json!({
        "computation_id": id.to_string(),
        "participants": parts.iter().map(|u| u.to_string()).collect::<Vec<_>>(),
        "program": program,
        "leader": leader,
        "party": party,
        "input": {"NumUnsigned": [input, "U8"]},
        "output": format!("{}p{}/{}", out, party, id),
        "constants": {},
    })
}

const KINDS: &[&str] = &[
    "dup-schedule", "ill-typed-schedule", "run", "run-unknown-id", "consts-unknown-sender", "consts-unknown-id", "validate-dup",
    "msg-out-of-range", "msg-own-index", "msg-unknown-id", "msg-own-index-burst",
];
const MOMENTS: &[i64] = &[-1, 0, 0, 1, 2, 4, 8, 15, 30, 60, 150];

#[tokio::main(flavor = "multi_thread", worker_threads = 8)]
async fn main() {
    let args: Vec<String> = std::env::args().collect();
    let seed: u64 = args.get(1).and_then(|s| s.parse().ok()).unwrap_or(1);
    let n_sc: usize = args.get(2).and_then(|s| s.parse().ok()).unwrap_or(24);
    let t0 = Instant::now();
    let outs: Outs = Arc::new(Mutex::new(vec![]));
    let listener = tokio::net::TcpListener::bind("127.0.0.1:0").await.expect("bind output");
    let out_url = Url::parse(&format!("http://{}/output/", listener.local_addr().unwrap())).unwrap();
    let app = Router::new().fallback(post(output)).with_state((outs.clone(), t0));
    tokio::spawn(async move {
        let _ = axum::serve(listener, app).await;
    });
    let parts = start_servers(2).await;
    let client = reqwest::Client::builder().timeout(Duration::from_secs(90)).build().unwrap();
    let program = "pub fn main(a: u8, b: u8) -> u8 { a ^ b }";
    for k in 0..n_sc {
        let mut x = (k as u64).wrapping_add(seed.wrapping_mul(0xd1b54a32d192ed03)).wrapping_add(0x9e3779b97f4a7c15);
        x = (x ^ (x >> 30)).wrapping_mul(0xbf58476d1ce4e5b9);
        x = (x ^ (x >> 27)).wrapping_mul(0x94d049bb133111eb);
        x ^= x >> 31;
        let kind = KINDS[(k + seed as usize) % KINDS.len()];
        let moment = MOMENTS[(k / KINDS.len() + (x >> 20) as usize) % MOMENTS.len()];
        let leader = (x >> 8) as usize % 2;
        let target = (x >> 12) as usize % 2;
        let inputs = [(x >> 32) & 0xff, (x >> 40) & 0xff];
        let id = Uuid::from_u128(((seed as u128) << 64) | (k as u128) | (0x14u128 << 120));
        let pols: Vec<Value> = (0..2).map(|p| policy(id, &parts, program, leader, p, inputs[p], &out_url)).collect();
        let stray = {
            let (client, parts, pols) = (client.clone(), parts.clone(), pols.clone());
            async move {
                let base = &parts[target];
                let other_id = Uuid::from_u128(0xdead_0000_0000_0000u128 | k as u128);
                let mut statuses: Vec<Value> = vec![];
                let n_req = if kind == "msg-own-index-burst" { 12 } else { 1 };
                let mut futs = vec![];
                for _ in 0..n_req {
                    let req = match kind {
                        "dup-schedule" => client.post(base.join("schedule").unwrap()).json(&pols[target]),
                        "ill-typed-schedule" => {
                            let mut p = pols[target].clone();
                            p["program"] = json!("pub fn main(a: u8, b: u8) -> u8 { a ^ }");
                            client.post(base.join("schedule").unwrap()).json(&p)
                        }
                        "run" => client.post(base.join("run").unwrap()).json(&json!({"computation_id": id.to_string()})),
                        "run-unknown-id" => client.post(base.join("run").unwrap()).json(&json!({"computation_id": other_id.to_string()})),
                        "consts-unknown-sender" => client.post(base.join("consts").unwrap()).json(&json!({"from": 7, "computation_id": id.to_string(), "consts": {}})),
                        "consts-unknown-id" => client.post(base.join("consts").unwrap()).json(&json!({"from": 1 - target, "computation_id": other_id.to_string(), "consts": {}})),
                        "validate-dup" => client.post(base.join("validate").unwrap()).json(&json!({"computation_id": id.to_string(), "program_hash": "0000", "leader": leader})),
                        "msg-out-of-range" => client.post(base.join(&format!("msg/{id}/9")).unwrap()).body(vec![1u8, 2, 3]),
                        "msg-unknown-id" => client.post(base.join(&format!("msg/{other_id}/0")).unwrap()).body(vec![1u8, 2, 3]),
                        _ => client.post(base.join(&format!("msg/{id}/{target}")).unwrap()).body(vec![9u8, 9, 9]),
                    };
                    futs.push(tokio::spawn(async move { tokio::time::timeout(Duration::from_secs(3), req.send()).await }));
                }
                for f in futs {
                    statuses.push(match f.await {
                        Ok(Ok(Ok(r))) => json!(r.status().as_u16()),
                        Ok(Ok(Err(e))) => json!(format!("client error: {e}")),
                        Ok(Err(_)) => json!("no answer within 3 s"),
                        Err(_) => json!("task failed"),
                    });
                }
                statuses
            }
        };
        let t_start = t0.elapsed().as_secs_f64();
        let sched = |p: usize| {
            let (client, url, pol) = (client.clone(), parts[p].join("schedule").unwrap(), pols[p].clone());
            tokio::spawn(async move {
                match client.post(url).json(&pol).send().await {
                    Ok(r) => json!(r.status().as_u16()),
                    Err(e) => json!(format!("client error: {e}")),
                }
            })
        };
        let mut stray_res = None;
        if moment < 0 {
            stray_res = Some(stray.await);
            let (a, b) = (sched(0), sched(1));
            let sched_res = vec![a.await.unwrap_or(json!("?")), b.await.unwrap_or(json!("?"))];
            finish(k, seed, kind, moment, leader, target, &inputs, id, &outs, t_start, t0, sched_res, stray_res, true).await;
            continue;
        }
        let (a, b) = (sched(0), sched(1));
        tokio::time::sleep(Duration::from_millis(moment as u64)).await;
        let own_schedule_done = if target == 0 { a.is_finished() } else { b.is_finished() };
        if stray_res.is_none() {
            stray_res = Some(stray.await);
        }
        let sched_res = vec![a.await.unwrap_or(json!("?")), b.await.unwrap_or(json!("?"))];
        finish(k, seed, kind, moment, leader, target, &inputs, id, &outs, t_start, t0, sched_res, stray_res, own_schedule_done).await;
    }
    // both servers must still answer
    let mut health = vec![];
    for p in &parts {
        health.push(match client.get(p.join("health").unwrap()).send().await { Ok(r) => json!(r.status().as_u16()), Err(e) => json!(format!("{e}")) });
    }
    println!("{}", json!({"final_health": health, "wall_s": t0.elapsed().as_secs_f64()}));
}

#[allow(clippy::too_many_arguments)]
async fn finish(k: usize, seed: u64, kind: &str, moment: i64, leader: usize, target: usize, inputs: &[u64; 2], id: Uuid, outs: &Outs, t_start: f64, t0: Instant, sched: Vec<Value>, stray: Option<Vec<Value>>, own_schedule_done_before_stray: bool) {
    // wait for both results (generous wall-clock watchdog; its firing is inconclusive, not a verdict)
    // scenarios whose stray request may legitimately change the outcome are not judged on it: short wait
    let judged = moment >= 0 && kind != "validate-dup" && kind != "run";
    let deadline = Instant::now() + Duration::from_secs(if judged { 60 } else { 3 });
    let mine = |o: &Vec<(String, Value, f64)>| -> Vec<(String, Value, f64)> { o.iter().filter(|(p, _, _)| p.contains(&id.to_string())).cloned().collect() };
    loop {
        let got = mine(&outs.lock().unwrap());
        if got.len() >= 2 || Instant::now() > deadline {
            break;
        }
        tokio::time::sleep(Duration::from_millis(20)).await;
    }
    // a little longer, to see surplus notifications
    tokio::time::sleep(Duration::from_millis(50)).await;
    let got = mine(&outs.lock().unwrap());
    println!(
        "{}",
        json!({"scenario": k, "seed": seed, "kind": kind, "moment_ms": moment, "leader": leader, "target": target, "inputs": inputs, "expected": inputs[0] ^ inputs[1],
            "schedule_status": sched, "stray_status": stray, "own_schedule_done_before_stray": own_schedule_done_before_stray, "outcome_judged": judged,
            "outputs": got.iter().map(|(p, v, t)| json!({"path": p, "body": v, "t": t})).collect::<Vec<_>>(), "t_start": t_start, "t_end": t0.elapsed().as_secs_f64()})
    );
}
