//! C05 - only designated output parties obtain the result.
use polytune::garble_lang::register_circuit::{Input, Op};
use rand::{Rng, SeedableRng};
use rand_chacha::ChaCha8Rng;
use serde_json::{Value, json};

use crate::circ;
use crate::codec::{self, Val};
use crate::report::Report;
use crate::runner::{Case, exec_mpc, outcome_str, parallel_for, threads};
use crate::sim::{EvKind, Net, Outcome, RunEnd, SchedKind};

fn some_slots(net: &Net, msg: usize) -> Option<Vec<usize>> {
    let m = &net.msgs[msg];
    let label = net.label(m.label);
    let sch = codec::schema_for(label)?;
    match codec::decode_all(&sch, &m.sent)? {
        Val::Vec(items) => Some(items.iter().enumerate().filter(|(_, v)| matches!(v, Val::Opt(Some(_)))).map(|(i, _)| i).collect()),
        _ => None,
    }
}

/// The four C05 rules on one honest execution. Returns (messages inspected, first violation).
pub fn check(net: &Net, c: &polytune::garble_lang::register_circuit::Circuit, p_eval: usize, p_out: &[usize], outcomes: &[Outcome<crate::runner::MpcOut>]) -> (usize, Option<(String, Value)>) {
    let n = net.n;
    let out_regs: std::collections::BTreeSet<usize> = c.output_regs.iter().map(|r| r.0 as usize).collect();
    let mut own_inputs: Vec<std::collections::BTreeSet<usize>> = vec![Default::default(); n];
    for inst in &c.insts {
        if let Op::Input(Input { party, .. }) = inst.op {
            if (party as usize) < n {
                own_inputs[party as usize].insert(inst.out.0 as usize);
            }
        }
    }
    let mut inspected = 0;
    // (iv) non-output parties return an empty vector
    for q in (0..n).filter(|q| !p_out.contains(q)) {
        if let Outcome::Done(Ok(v)) = &outcomes[q] {
            if !v.is_empty() {
                return (inspected, Some(("a party outside the output set obtained a non-empty result".into(), json!({"party": q, "result": outcome_str(&outcomes[q])}))));
            }
        }
    }
    // (i) stage rule: end of the input stage per sender
    let mut t_stage = vec![0u64; n];
    for s in 0..n {
        let stage_labels: &[&str] = if s != p_eval { &["labels"] } else if n == 2 { &["masked inputs"] } else { &["broadcast masked inputs"] };
        for e in &net.log {
            if e.kind == EvKind::SendDone && e.party == s && e.label != u16::MAX && stage_labels.contains(&net.label(e.label)) {
                t_stage[s] = t_stage[s].max(e.t);
            }
        }
    }
    for e in &net.log {
        if e.kind == EvKind::SendCall && t_stage[e.party] > 0 && e.t > t_stage[e.party] && !p_out.contains(&e.peer) {
            return (inspected, Some((
                format!("a message ('{}') is addressed to a party outside the output set after the sender's input stage", net.label(e.label)),
                json!({"sender": e.party, "receiver": e.peer, "label": net.label(e.label), "len": e.len, "sender_input_stage_ended_t": t_stage[e.party], "t": e.t}),
            )));
        }
    }
    for m in &net.msgs {
        let label = net.label(m.label);
        match label {
            // (ii) input stage content: an output register may only be shared with its input owner
            "wire shares" => {
                inspected += 1;
                if let Some(slots) = some_slots(net, m.id) {
                    for r in slots {
                        if out_regs.contains(&r) && !own_inputs[m.to].contains(&r) {
                            return (inspected, Some(("an input-stage message carries a share of an output register that is not the receiver's own input".into(), json!({"sender": m.from, "receiver": m.to, "register": r}))));
                        }
                    }
                }
            }
            // (iii) output stage content: only output registers
            "output wire shares" | "lambda" => {
                inspected += 1;
                if !p_out.contains(&m.to) {
                    return (inspected, Some((format!("'{label}' sent to a party outside the output set"), json!({"sender": m.from, "receiver": m.to}))));
                }
                if let Some(slots) = some_slots(net, m.id) {
                    for r in slots {
                        if !out_regs.contains(&r) {
                            return (inspected, Some((format!("'{label}' reveals a value for a register that is not an output register"), json!({"sender": m.from, "receiver": m.to, "register": r, "output_registers": out_regs}))));
                        }
                    }
                }
            }
            _ => {}
        }
    }
    (inspected, None)
}

struct Out {
    key: String,
    end: RunEnd,
    ok: bool,
    inspected: usize,
    violation: Option<(String, Value)>,
    sample: Value,
    nontrivial: bool,
}

fn one(i: usize, seed: u64) -> Out {
    let mut rng = ChaCha8Rng::seed_from_u64(seed ^ 0xc05 ^ (i as u64).wrapping_mul(0x9e3779b97f4a7c15));
    let n = 2 + i % 3;
    let ands = [0usize, 1, 2, 4][i % 4];
    let mut cfg = circ::random_gen_cfg(&mut rng, n, ands);
    cfg.reuse_pct = 60; // outputs alias reused internal registers
    cfg.feat_out_is_input = i % 2 == 0;
    let c = circ::gen_circuit(&mut rng, &cfg);
    let inputs = circ::random_inputs(&mut rng, &c);
    let p_eval = (i / 3) % n;
    // every non-empty output subset over the run index
    let mask = 1 + (i / (3 * n)) % ((1 << n) - 1);
    let p_out: Vec<usize> = (0..n).filter(|p| mask >> p & 1 == 1).collect();
    let expected = circ::eval_clear(&c, &inputs);
    // the output set as the caller writes it: sorted, in another order, or (every 6th run, proper subsets only)
    // with members repeated until the slice is as long as the number of parties
    let mut p_out_arg = p_out.clone();
    let repeated = i % 6 == 5 && p_out.len() < n;
    if repeated {
        while p_out_arg.len() < n {
            let k = p_out_arg[rng.random_range(0..p_out_arg.len())];
            let at = rng.random_range(0..=p_out_arg.len());
            p_out_arg.insert(at, k);
        }
    } else if i % 6 == 2 {
        p_out_arg.reverse();
    }
    let mut case = Case::new(c.clone(), inputs.clone(), p_eval, p_out_arg.clone());
    case = case.with_sched(if i % 2 == 0 { SchedKind::RoundRobin } else { SchedKind::Random }, rng.random());
    let ex = exec_mpc(case);
    // a slice with repeated members may be refused by every party (as long as nothing was sent) or be
    // treated as the set it denotes
    let all_refused = repeated && ex.net.msgs.is_empty() && ex.outcomes.iter().all(|o| matches!(o, Outcome::Done(Err(_))));
    let ok = all_refused
        || (ex.end == RunEnd::AllFinished
            && (0..n).all(|p| matches!(&ex.outcomes[p], Outcome::Done(Ok(v)) if *v == if p_out.contains(&p) { expected.clone() } else { vec![] })));
    let (inspected, mut violation) = check(&ex.net, &c, p_eval, &p_out, &ex.outcomes);
    if violation.is_none() && repeated && !ok {
        violation = Some(("an output set written with repeated members was neither refused up front nor treated as the set it denotes".into(), json!({"p_out_argument": p_out_arg, "outcomes": ex.outcomes.iter().map(outcome_str).collect::<Vec<_>>()})));
    }
    let key = format!("n={n} E={p_eval} O={:?} E_in_O={} feat={}", p_out_arg, p_out.contains(&p_eval), cfg.features());
    let non_out: Vec<usize> = (0..n).filter(|p| !p_out.contains(p)).collect();
    let sample = json!({"n": n, "p_eval": p_eval, "p_out": p_out_arg, "non_output_parties": non_out, "circuit": circ::circ_to_json(&c),
        "messages": ex.net.msgs.len(), "opening_and_share_messages_inspected": inspected,
        "outcomes": ex.outcomes.iter().map(outcome_str).collect::<Vec<_>>()});
    Out { key, end: ex.end, ok, inspected, violation, sample, nontrivial: !non_out.is_empty() }
}

pub fn run(tier: &str, seed: u64) -> i32 {
    let mut rep = Report::new("C05", tier, seed, "exploration");
    rep.rule = "honest executions, n=2..4, every evaluator, every non-empty output subset (cycled; written sorted, reversed, or - every 6th run - with members repeated up to the number of parties, which may be refused by everybody before anything is sent), circuits whose output registers alias reused registers and input registers. Oracle on the recorded transcript: (i) after a sender's input stage nothing is addressed to a non-output party, (ii) input-stage shares of an output register go only to the owner of that input, (iii) opening messages carry values only at output registers and only to output parties, (iv) non-output parties return an empty vector. distinct = (n, evaluator, output set, features); non-trivial = at least one party is outside the output set".into();
    rep.assumptions = vec!["stages are recognised by the engine's phase labels 'labels' / 'masked inputs'".into()];
    let n_runs = if tier == "thorough" { 6000 } else { 1200 };
    let outs = parallel_for(n_runs, threads(), |i| one(i, seed));
    for o in outs {
        rep.evaluations += 1;
        match &o.end {
            RunEnd::HarnessError(e) => { rep.harness_error(e.clone()); continue; }
            RunEnd::StepLimit => { rep.inconclusive("step limit"); continue; }
            _ => {}
        }
        if !o.ok && o.violation.is_none() {
            rep.harness_error(format!("honest run failed (judged by C01): {}", o.key));
            continue;
        }
        rep.add("messages_inspected", o.inspected as u64);
        if o.nontrivial {
            rep.distinct.insert(o.key.clone());
        }
        if let Some((sig, w)) = o.violation {
            rep.violation(sig, json!({"run": o.sample, "witness": w}));
        } else if o.nontrivial {
            rep.sample(o.sample);
        }
    }
    rep.finish()
}
