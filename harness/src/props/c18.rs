//! C18 - documented-invalid arguments are rejected up front without traffic or panic.
use polytune::garble_lang::register_circuit::{And, Circuit, Input, Inst, Op, Reg, Xor};
use serde_json::{Value, json};

use crate::circ::{self, Builder};
use crate::report::{Report, bits};
use crate::runner::{Case, PartyArgs, exec_mpc, outcome_str, parallel_for, threads};
use crate::sim::{EvKind, Outcome, RunEnd};

#[derive(Clone)]
struct Bad {
    class: String,
    n: usize,
    circ: Circuit,
    /// argument override for the bad party / parties
    args: PartyArgs,
    /// which parties use the bad arguments
    who: Vec<usize>,
    /// honest base
    inputs: Vec<Vec<bool>>,
    p_eval: usize,
    p_out: Vec<usize>,
    /// true: must be rejected; false: "rejected or treated as a set"
    must_reject: bool,
}

fn base(n: usize) -> (Circuit, Vec<Vec<bool>>) {
    let inputs = vec![2usize; n];
    let mut b = Builder::new(&inputs);
    let a = b.and(b.input(0, 0), b.input(1, 1));
    let x = b.xor(a, b.input(n - 1, 0));
    let y = b.and(x, b.input(0, 1));
    let c = b.finish(vec![y, x]);
    let inp = (0..n).map(|p| vec![p % 2 == 0, true]).collect();
    (c, inp)
}

fn cases() -> Vec<Bad> {
    let mut v = vec![];
    for n in [2usize, 3] {
        let (c, inputs) = base(n);
        let p_out: Vec<usize> = (0..n).collect();
        for who in [vec![1usize], (0..n).collect::<Vec<_>>()] {
            let wname = if who.len() == 1 { "one-party" } else { "all-parties" };
            let mk = |class: &str, f: &dyn Fn(&mut PartyArgs), must: bool| -> Bad {
                let mut a = PartyArgs { circ: None, inputs: inputs[1].clone(), p_eval: 0, p_own: 1, p_out: p_out.clone() };
                f(&mut a);
                Bad { class: format!("{class}:{wname}"), n, circ: c.clone(), args: a, who: who.clone(), inputs: inputs.clone(), p_eval: 0, p_out: p_out.clone(), must_reject: must }
            };
            for bad in [n, n + 1, usize::MAX] {
                let t = if bad == n { "n" } else if bad == n + 1 { "n+1" } else { "usize::MAX" };
                if who.len() == 1 {
                    v.push(mk(&format!("own-index={t}"), &|a| a.p_own = bad, true));
                }
                v.push(mk(&format!("evaluator-index={t}"), &|a| a.p_eval = bad, true));
                v.push(mk(&format!("output-index={t}"), &|a| a.p_out = vec![0, bad], true));
                v.push(mk(&format!("only-output-index={t}"), &|a| a.p_out = vec![bad], true));
            }
            v.push(mk("input-length-0", &|a| a.inputs = vec![], true));
            v.push(mk("input-length-minus-1", &|a| { a.inputs.pop(); }, true));
            v.push(mk("input-length-plus-1", &|a| a.inputs.push(true), true));
            v.push(mk("input-length-huge", &|a| a.inputs = vec![true; 100_000], true));
            v.push(mk("empty-output-set", &|a| a.p_out = vec![], true));
            // the other parties use the de-duplicated / sorted set, so the public configuration is consistent
            let mut b = mk("repeated-output-index", &|a| a.p_out = vec![1, 1], false);
            b.p_out = vec![1];
            v.push(b);
            let mut b = mk("repeated-output-index-3x", &|a| a.p_out = vec![0, 1, 1, 0, 1], false);
            b.p_out = vec![0, 1];
            v.push(b);
            for (name, set) in [("repeated-output-index-non-adjacent-101", vec![1usize, 0, 1]), ("repeated-output-index-non-adjacent-010", vec![0, 1, 0]), ("repeated-output-index-non-adjacent-last-first", vec![n - 1, 0, 1, n - 1])] {
                let mut b = mk(name, &|a| a.p_out = set.clone(), false);
                let mut base: Vec<usize> = set.clone();
                base.sort();
                base.dedup();
                b.p_out = base;
                v.push(b);
            }
            v.push(mk("unsorted-output-set", &|a| a.p_out = (0..n).rev().collect(), false));
            // circuit descriptions whose counters disagree with their instructions
            let with_circ_m = |class: &str, must: bool, f: &dyn Fn(&mut Circuit)| -> Bad {
                let mut cc = c.clone();
                f(&mut cc);
                let a = PartyArgs { circ: Some(cc), inputs: inputs[1].clone(), p_eval: 0, p_own: 1, p_out: p_out.clone() };
                Bad { class: format!("{class}:{wname}"), n, circ: c.clone(), args: a, who: who.clone(), inputs: inputs.clone(), p_eval: 0, p_out: p_out.clone(), must_reject: must }
            };
            // counters that disagree with the instructions: the property only demands "no panic";
            // descriptions that fail Circuit::validate() must be rejected up front
            let with_circ = |class: &str, f: &dyn Fn(&mut Circuit)| -> Bad { with_circ_m(&format!("counters:{class}"), false, f) };
            let with_invalid = |class: &str, f: &dyn Fn(&mut Circuit)| -> Bad { with_circ_m(&format!("fails-validate:{class}"), true, f) };
            v.push(with_circ("and_ops-too-small", &|c| c.and_ops -= 1));
            v.push(with_circ("and_ops-zero", &|c| c.and_ops = 0));
            v.push(with_circ("and_ops-too-large", &|c| c.and_ops += 3));
            v.push(with_circ("input-after-gate", &|c| {
                // an Input instruction after a gate; passes Circuit::validate() when out == position
                let pos = c.insts.len();
                if c.max_reg_count <= pos { c.max_reg_count = pos + 1; }
                c.insts.push(Inst { out: Reg(pos as u32), op: Op::Input(Input { party: 0, input: 0 }) });
            }));
            v.push(with_circ("input-after-gate-counted", &|c| {
                // consistent counters, but the last Input of party 0 sits after the gates
                let pos = c.insts.len();
                if c.max_reg_count <= pos { c.max_reg_count = pos + 1; }
                c.insts.push(Inst { out: Reg(pos as u32), op: Op::Input(Input { party: 0, input: 2 }) });
                c.input_regs[0] += 1;
                c.output_regs.push(Reg(pos as u32));
            }));
            v.push(with_circ("surplus-input", &|c| {
                // one more Input instruction than input_regs announces, in the input block
                let k: usize = c.input_regs.iter().sum();
                let mut insts = c.insts[..k].to_vec();
                insts.push(Inst { out: Reg(k as u32), op: Op::Input(Input { party: 0, input: 1 }) });
                for i in &c.insts[k..] {
                    let sh = |r: Reg| if (r.0 as usize) >= k { Reg(r.0 + 1) } else { r };
                    let op = match i.op {
                        Op::And(And(a, b)) => Op::And(And(sh(a), sh(b))),
                        Op::Xor(Xor(a, b)) => Op::Xor(Xor(sh(a), sh(b))),
                        Op::Not(polytune::garble_lang::register_circuit::Not(a)) => Op::Not(polytune::garble_lang::register_circuit::Not(sh(a))),
                        o => o,
                    };
                    insts.push(Inst { out: sh(i.out), op });
                }
                c.insts = insts;
                c.max_reg_count += 1;
                c.output_regs = c.output_regs.iter().map(|r| if (r.0 as usize) >= k { Reg(r.0 + 1) } else { *r }).collect();
            }));
            v.push(with_circ("output-register-never-written-gap", &|c| {
                // the registers of all gates move up by one: register k (right behind the inputs) is never
                // written, lies below the highest written register and is named as an output
                let k: usize = c.input_regs.iter().sum();
                let sh = |r: Reg| if (r.0 as usize) >= k { Reg(r.0 + 1) } else { r };
                for i in c.insts.iter_mut().skip(k) {
                    i.op = match i.op {
                        Op::And(And(a, b)) => Op::And(And(sh(a), sh(b))),
                        Op::Xor(Xor(a, b)) => Op::Xor(Xor(sh(a), sh(b))),
                        Op::Not(polytune::garble_lang::register_circuit::Not(a)) => Op::Not(polytune::garble_lang::register_circuit::Not(sh(a))),
                        o => o,
                    };
                    i.out = sh(i.out);
                }
                c.max_reg_count += 1;
                c.output_regs = c.output_regs.iter().map(|r| sh(*r)).collect();
                c.output_regs.push(Reg(k as u32));
            }));
            v.push(with_circ("output-register-never-written", &|c| {
                c.max_reg_count += 1;
                c.output_regs.push(Reg((c.max_reg_count - 1) as u32));
            }));
            v.push(with_circ("max_reg_count-zero-no-instructions", &|c| {
                c.max_reg_count = 0;
                c.insts.clear();
                c.output_regs.clear();
                c.and_ops = 0;
            }));
            v.push(with_circ("max_reg_count-zero", &|c| c.max_reg_count = 0));
            // register 0 is the only one in use: max_reg_count - 1 saturates to 0 in Circuit::validate()
            v.push(with_circ("max_reg_count-zero-only-register-0-used", &|c| {
                c.max_reg_count = 0;
                c.insts.truncate(1);
                c.output_regs = vec![Reg(0)];
                c.and_ops = 0;
            }));
            v.push(with_circ("max_reg_count-one-below-highest-register", &|c| {
                c.max_reg_count -= 1;
            }));
            if std::env::var("PV_C18_HUGE").is_ok() {
                v.push(with_circ("max_reg_count-usize-max", &|c| c.max_reg_count = usize::MAX));
                v.push(with_circ("input_regs-sum-overflows", &|c| { let k = c.input_regs.len(); c.input_regs[k - 1] = usize::MAX; }));
                v.push(with_circ("input_regs-huge", &|c| { let k = c.input_regs.len(); c.input_regs[k - 1] = 1 << 40; }));
                v.push(with_circ("max_reg_count-huge", &|c| c.max_reg_count = 1 << 40));
                // only in a child process (see run()): a failed allocation aborts the process
                v.push(with_circ("and_ops-huge", &|c| c.and_ops = 1 << 40));
                v.push(with_circ("and_ops-usize-max", &|c| c.and_ops = usize::MAX));
            }
            v.push(with_circ("input-party-out-of-range", &|c| {
                if let Op::Input(i) = &mut c.insts[0].op { i.party = 7; }
            }));
            v.push(with_circ("input-index-out-of-range", &|c| {
                if let Op::Input(i) = &mut c.insts[1].op { i.input = 9; }
            }));
            v.push(with_invalid("max_reg_count-too-small", &|c| c.max_reg_count -= 2));
            v.push(with_invalid("no-outputs", &|c| c.output_regs.clear()));
            v.push(with_invalid("output-register-out-of-range", &|c| c.output_regs.push(Reg(10_000))));
            v.push(with_circ("fewer-parties-than-inputs", &|c| { c.input_regs.pop(); }));
        }
    }
    v
}

struct Out {
    class: String,
    n: usize,
    end: RunEnd,
    sig: Option<String>,
    sample: Value,
}

fn run_one(b: &Bad) -> Out {
    let mut case = Case::new(b.circ.clone(), b.inputs.clone(), b.p_eval, b.p_out.clone());
    for p in &b.who {
        let mut a = b.args.clone();
        if !(b.args.p_own != 1) {
            a.p_own = *p;
        }
        if a.inputs == b.inputs[1] {
            a.inputs = b.inputs[*p].clone();
        }
        if let Some(cc) = &a.circ {
            if b.class.starts_with("counters:") {
                if let Some(k) = cc.input_regs.get(*p) {
                    if *k <= 1 << 20 {
                        a.inputs.resize(*k, true);
                    }
                }
            }
        }
        case.overrides[*p] = Some(a);
    }
    let ex = exec_mpc(case);
    let mut sig = None;
    let expected_all = circ::eval_clear(&b.circ, &b.inputs);
    if std::env::var("PV_VERBOSE").is_ok() {
        eprintln!("{} n={} -> {:?}", b.class, b.n, ex.outcomes.iter().map(outcome_str).collect::<Vec<_>>());
    }
    for p in &b.who {
        let expected = if b.p_out.contains(p) { expected_all.clone() } else { vec![] };
        let ops = ex.net.log.iter().filter(|e| e.party == *p && matches!(e.kind, EvKind::SendCall | EvKind::RecvCall)).count();
        let oc = &ex.outcomes[*p];
        let cls = crate::props::classify(oc);
        if cls.starts_with("Panic") {
            sig = Some(format!("panic on invalid argument {} ({})", b.class.rsplitn(2, ':').last().unwrap_or(""), cls.replace("Panic@", "at ")));
        } else if b.class.starts_with("counters:") {
            // never a panic - anything else is outside the property
        } else if b.must_reject {
            match oc {
                Outcome::Done(Err(_)) if ops == 0 => {}
                Outcome::Done(Err(_)) => sig = Some(format!("invalid argument {} rejected only after channel traffic", b.class.split(':').next().unwrap_or(""))),
                Outcome::Done(Ok(_)) => sig = Some(format!("invalid argument {} accepted (returned Ok)", b.class.split(':').next().unwrap_or(""))),
                _ => sig = Some(format!("invalid argument {}: run did not return ({cls})", b.class.split(':').next().unwrap_or(""))),
            }
        } else {
            // rejected up front, or treated as the de-duplicated set
            match oc {
                Outcome::Done(Err(_)) if ops == 0 => {}
                Outcome::Done(Ok(v)) if *v == expected && b.who.len() == b.n => {}
                Outcome::Done(Ok(v)) if *v == expected => {}
                Outcome::Done(Err(_)) if b.who.len() < b.n => {}
                _ => sig = Some(format!("repeated/unsorted output set {} neither rejected up front nor treated as a set ({cls})", b.class.split(':').next().unwrap_or(""))),
            }
        }
        if sig.is_some() {
            break;
        }
    }
    let sample = json!({"class": b.class, "n": b.n, "bad_parties": b.who, "p_own": b.args.p_own, "p_eval": b.args.p_eval, "p_out": b.args.p_out,
        "inputs_len": b.args.inputs.len(), "circuit_override": b.args.circ.as_ref().map(circ::circ_to_json),
        "channel_ops_before_return": b.who.iter().map(|p| ex.net.log.iter().filter(|e| e.party == *p && matches!(e.kind, EvKind::SendCall | EvKind::RecvCall)).count()).collect::<Vec<_>>(),
        "outcomes": ex.outcomes.iter().map(outcome_str).collect::<Vec<_>>(), "honest_inputs": b.inputs.iter().map(|v| bits(v)).collect::<Vec<_>>()});
    Out { class: b.class.clone(), n: b.n, end: ex.end, sig, sample }
}

pub fn run(tier: &str, seed: u64) -> i32 {
    let mut rep = Report::new("C18", tier, seed, "exploration");
    rep.rule = "every documented-invalid value of each mpc argument (own / evaluator / output index in {n, n+1, usize::MAX}, input length 0 / -1 / +1 / huge, empty, repeated and unsorted output sets) and circuit descriptions whose counters disagree with their instructions (and_ops wrong; and_ops / max_reg_count / input_regs of 2^40 and usize::MAX in a child process; max_reg_count 0; an output register that no instruction writes, Input after a gate, surplus Input, Input.party / Input.input out of range, max_reg_count too small, no outputs), used by one party or by all, n in {2,3}. Oracle: Err with 0 channel operations and no panic; repeated output indices: that, or the result of the de-duplicated set. distinct = (n, invalid-argument class, one/all parties); every case is non-trivial".into();
    if tier == "huge-child" {
        // child process: only the cases with huge counters; one line per case on stdout
        let all: Vec<Bad> = cases().into_iter().filter(|b| b.class.contains("and_ops-huge") || b.class.contains("and_ops-usize-max") || b.class.contains("max_reg_count-usize-max") || b.class.contains("input_regs-sum-overflows") || b.class.contains("input_regs-huge") || b.class.contains("max_reg_count-huge")).collect();
        for b in &all {
            println!("HUGE-BEGIN n={} {}", b.n, b.class);
            let o = run_one(b);
            println!("HUGE-CASE n={} {} => {}", o.n, o.class, match (&o.end, &o.sig) { (RunEnd::HarnessError(e), _) => format!("HARNESS {e}"), (_, Some(s)) => format!("VIOLATION {s}"), _ => "OK".to_string() });
        }
        println!("HUGE-DONE {}", all.len());
        return 0;
    }
    let all = cases();
    let reps = if tier == "thorough" { 3 } else { 1 };
    let outs = parallel_for(all.len() * reps, threads(), |i| run_one(&all[i % all.len()]));
    for o in outs {
        rep.evaluations += 1;
        match &o.end {
            RunEnd::HarnessError(e) => { rep.harness_error(e.clone()); continue; }
            RunEnd::StepLimit => { rep.inconclusive("step limit"); continue; }
            _ => {}
        }
        rep.distinct.insert(format!("n={} {}", o.n, o.class));
        match o.sig {
            Some(s) => rep.violation(s, o.sample),
            None => { if rep.evaluations % 17 == 1 { rep.sample(o.sample) } }
        }
    }
    // counters far beyond anything allocatable: a failed allocation aborts the process (it cannot be
    // caught), so these cases run in a child process
    match Ok::<_, std::io::Error>(std::path::PathBuf::from("/proc/self/exe")) {
        Ok(exe) => {
            let out = std::process::Command::new(exe).args(["C18", "huge-child", "--seed", &seed.to_string()]).env("PV_C18_HUGE", "1").output();
            match out {
                Ok(o) => {
                    let text = String::from_utf8_lossy(&o.stdout).to_string();
                    let mut done = false;
                    for l in text.lines() {
                        if let Some(rest) = l.strip_prefix("HUGE-CASE ") {
                            rep.evaluations += 1;
                            let (case, res) = rest.split_once(" => ").unwrap_or((rest, "?"));
                            rep.distinct.insert(case.to_string());
                            if let Some(sig) = res.strip_prefix("VIOLATION ") {
                                rep.violation(sig.to_string(), json!({"case": case, "child": "in-process result"}));
                            } else if let Some(e) = res.strip_prefix("HARNESS ") {
                                rep.harness_error(e.to_string());
                            }
                        }
                        if l.starts_with("HUGE-DONE") { done = true; }
                    }
                    if !done {
                        let last_begun = text.lines().filter_map(|l| l.strip_prefix("HUGE-BEGIN ")).last().unwrap_or("?").to_string();
                        let err = String::from_utf8_lossy(&o.stderr);
                        let first = err.lines().find(|l| l.contains("memory allocation") || l.contains("panicked") || l.contains("overflow")).unwrap_or("").to_string();
                        rep.evaluations += 1;
                        rep.violation(format!("the process aborted on a circuit with an absurd counter ({})", last_begun.split_whitespace().last().unwrap_or("?").rsplit_once(':').map(|x| x.0).unwrap_or("?")), json!({"case": last_begun, "exit_status": format!("{:?}", o.status), "stderr_line": first, "cases_completed_before": text.lines().filter(|l| l.starts_with("HUGE-CASE")).count()}));
                    }
                }
                Err(e) => rep.harness_error(format!("cannot start the child process for the huge-counter cases: {e}")),
            }
        }
        Err(e) => rep.harness_error(format!("current_exe: {e}")),
    }
    rep.finish()
}
