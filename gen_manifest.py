#!/usr/bin/env python3
"""Regenerates MANIFEST.json. Edit CHECKS below; properties without an entry go to not_applicable."""
import json, subprocess

HOOK_COMMITS = subprocess.run(
    ["git", "-C", "/repo", "log", "--format=%h %s", "--grep=^verif hook"],
    capture_output=True, text=True).stdout.strip().splitlines()

CHECKS = {
 "C02": dict(level="fault_enumeration", ref="DESIGN.md §3 C02",
   technique="runtime monitoring with fault injection: every message of a corrupted party altered by tree-mutation classes or consistent lies through taps; honest return values checked against the exhaustively enumerated admissible output set",
   text="One corrupted party (every party, as evaluator and garbler, n in {2,3}) runs the real engine while the adversary alters each message it sends (every tree-mutation class at sampled positions; single recipient, all recipients, persistent) or lies consistently through taps; every case repeated with fresh coins. An honest Ok value outside {f(x_honest,x')} or two honest Ok values no single x' explains is a violation.",
   note="Detection of coin-dependent breaks is probabilistic per case (repetitions R=3 quick / 6 thorough). Adaptive multi-message strategies beyond the enumerated families, more than one corrupted party and n>3 are out of reach."),
 "C03": dict(level="fault_enumeration", ref="DESIGN.md §3 C03",
   technique="runtime monitoring with fault injection: catalogue of forged authenticated online-phase fields (wire and tap level), victim's mpc result observed",
   text="Catalogue of forged authenticated fields of the online phase (mask-share bit/MAC, input labels incl. the other valid label, all four rows of a gate at body and tag bytes, wrong share bit garbled into the rows, evaluator's revealed value/label, per-recipient masked inputs and echo hashes) per register position, corrupted role, victim role, n in {2,3}; the designated victim must return Err.",
   note="Only fields the generator knows to be consumed are judged; held on the enumerated catalogue with fresh coins per repetition."),
 "C04": dict(level="fault_enumeration", ref="DESIGN.md §3 C04",
   technique="runtime monitoring: (a) fault injection catalogue over every preprocessing check, (b) online trace checker commit-before-reveal over the event log under adversarial schedulers, (c) predictor monitor comparing challenges recomputed from public openings with probes of the challenges used",
   text="(a) every preprocessing verification step is attacked on the wire (single/all recipients, persistent) or consistently through taps; honest receivers must return Err and must not send any online-phase message afterwards. (b) for every party and round the first reveal send must follow the receipt of every commitment, checked on honest runs under starving/random/PCT schedules with capacities 1,2,unbounded. (c) a passive predictor recomputes KOS chi_0, the aBit test seed and the bucket permutation from the coin-toss openings; exact match = predictable (recorded known findings), equal chi_0 in two sessions = reuse.",
   note="Cheating with inherent detection failure above 2^-64 is not in the must-abort catalogue. (c) only knows the probed challenges. Known findings: the three challenges are derived from the initial toss and chi is reused (not a small patch)."),
 "C05": dict(level="exploration", ref="DESIGN.md §3 C05",
   technique="runtime monitoring: offline checker over the recorded transcript of honest runs (stage rule on event order, decoded content of share/opening messages, return values)",
   text="Honest runs for n=2..4, every evaluator, every non-empty output subset, circuits whose outputs alias reused and input registers. The event log must show no message addressed to a non-output party after the sender's input stage; decoded 'wire shares' may carry an output register only to the owner of that input; 'output wire shares'/'lambda' carry values only at output registers and only to output parties; non-output parties return an empty vector.",
   note="Stages are recognised by the engine's own phase labels. Leakage through the content of earlier-stage messages is C06/C07's subject."),
 "C06": dict(level="exploration", ref="DESIGN.md §3 C06",
   technique="runtime monitoring: statistical monitor over repeated transcripts (balance of the recovered own mask share), canary-input scanners over a party's outgoing traffic, freshness of probed global keys",
   text="From the transcript only, each party's own mask share per input wire is recovered as masked_input ^ input ^ XOR of the others' shares; over N executions per input value (256 quick / 2048 thorough) and role the number of ones must lie in a fixed interval. 128 canary input bits (and the own share vector) must not occur in any outgoing message as packed / bool-byte / decoded-bool run nor complemented. All probed global keys and all 128-bit own-share vectors are pairwise distinct.",
   note="Fixed thresholds (honest false-alarm < 1e-20 per wire); small biases and computational distinguishers are out of reach."),
 "C07": dict(level="fault_enumeration", ref="DESIGN.md §3 C07",
   technique="runtime monitoring: offline checker over the recorded transcript (hash-set window scan for the probed global key and XOR sets of size 2 and 3), on honest runs and on every execution of the C03/C04 fault catalogues; plus a directed attack (corrupted party biases its own base-OT seeds through a tap so that OT-extension columns coincide) whose oracle is the attacker's own computation compared with the probed key",
   text="For every honest party T and execution the pooled transcript is scanned for delta_T (probe): the key at every byte offset in both byte orders, two windows XORing to it (every offset, mixed byte orders, linear time), and in honest 2-party runs three decoded 128-bit fields XORing to it. Honest runs cover n=2..4 with NOT gates and all roles; adversarial runs are the C03 and C04 catalogues incl. the cheater-continues variants. Seed-collision probe: 2-party distributed preprocessing in which the corrupted party sends only honestly computed messages but chooses base-OT seeds with coinciding extension columns; candidates U[a]^U[b]^M[a]^M[b]^K[a]^K[b] (and ^ own key) must never equal the honest party's key.",
   note="Certifies only XOR sets of size <= 3 of byte windows / decoded fields; single leaked bits are out of reach. One known finding: the leaky-AND check opening reveals delta of a party that simultaneously aborts."),
 "C08": dict(level="fault_enumeration", ref="DESIGN.md §3 C08",
   technique="runtime monitoring with fault injection: adversarial channel rewrites/drops messages or crashes the peer; outcome, exact deadlock detection and counting allocator observed per execution (sharded sub-processes)",
   text="For every message a corrupted party sends in the fault configurations (n=2 complete, n=3 sampled in quick / complete in thorough) the message is replaced by every byte-level class and every structure-aware mutation class of its decoded tree, or the peer vanishes after it (both send-to-dead semantics). Each honest party must end in Ok or Err: a caught panic, an exact 'no runnable task' state, a single allocation request above the bound or a process abort is a violation.",
   note="Holds for the executions produced (evidence lists cases per label and the outcome histogram). Assumes peers that terminate close their endpoints; silent-but-connected peers are outside the property. Coins of the engine are not reproducible, replay re-runs the case."),
 "C09": dict(level="exploration", ref="DESIGN.md §3 C09",
   technique="runtime monitoring: recording channel, per (party, peer) sequence of (direction, byte length) compared across executions with different inputs and coins",
   text="For each sampled public configuration (circuit, n, evaluator, output set, temp-file mask) R executions with inputs all-0, all-1 and random and fresh coins are run under one fixed schedule; the per-(party,peer) sequences of (direction, length) must be identical, the first differing operation is the witness.",
   note="Timing is not observed; configurations are sampled. The fixed round-robin schedule makes per-party operation order a function of the code path only."),
 "C10": dict(level="exploration", ref="DESIGN.md §3 C10",
   technique="runtime monitoring: invariant check (MAC relation, AND relation, coin equality) on the values returned by the real preprocessing driven through verification wrappers in the simulator",
   text="The distributed preprocessing (coin tosses, aShare, Beaver/bucketing exactly as gen_auth_bits calls them) runs for n=2..5 and batch lengths around 64/128 boundaries and 1000/3099/3100/5000 (bucket sizes 5 and 4) with left/right shares that are public linear combinations of fresh shares; the trusted dealer is driven by a harness client and through mpc. Every returned share must satisfy MAC_i[j] = key_j[i] ^ bit_i*delta_j, AND shares must XOR to the AND of the XORs, shared coins must agree.",
   note="Bucket size 3 (>= 280000 triples) is not exercised. Relations are checked on everything returned, for the executions produced."),
 "C11": dict(level="exploration", ref="DESIGN.md §3 C11",
   technique="runtime monitoring: relation check on the results of the real KOS correlated-OT sessions over the simulated channel",
   text="For every length (1..300 plus 8k+-1 and 128k+-1 up to 4097 quick, every length to 4096 thorough) two back-to-back sessions with shared session RNG in both orders, four choice-vector classes and per-index correlations: both result vectors have the requested length and recv[i] = send0[i] ^ (c[i] & correlation[i]).",
   note="Uses the existing __bench re-exports; big-endian block convention as in the engine."),
 "C12": dict(level="exploration", ref="DESIGN.md §3 C12",
   technique="runtime monitoring under schedule exploration: deterministic executor with seeded adversarial schedulers (random, PCT, starvation, lazy/eager delivery), bounded channels, exact deadlock detection, outstanding-operation guards",
   text="Honest executions under seeded schedulers x capacities 1, 2, unbounded x n=2..4 x every evaluator; every party must end Ok with the clear-text value, the run must never be stuck (no runnable task, no deliverable message) and no (party, peer) may have two sends or two receives outstanding. Evidence counts distinct schedule and interleaving hashes.",
   note="Schedules are sampled, not enumerated; channels that reorder within a pair are outside the property."),
 "C13": dict(level="exploration", ref="DESIGN.md §3 C13", engine="pv-server",
   technique="runtime monitoring under schedule exploration: real PolicyState actors behind a gated in-process PolicyClient, DFS over coordination-RPC delivery orders by stateless re-execution plus random orders, end-state oracle at exact quiescence",
   text="For every program of the library (constants from none/some/all parties), leader and output-destination mask the explorer enumerates schedule-arrival and coordination-delivery orders depth first (complete for n=2 within the budget, bounded for n=3) and samples random orders that interleave MPC messages. At quiescence every schedule returned Ok, each destination got exactly one result equal to the native reference, every actor stopped without panic and all permits are back.",
   note="Quiescence is exact (paused clock + no pending delivery + no extra OS thread). DFS does not branch on MPC message deliveries; n=3 is not exhausted in quick."),
 "C14": dict(level="fault_enumeration", ref="DESIGN.md §3 C14", engine="pv-server",
   technique="runtime monitoring with command injection at every idle point of a gated run (and queued right behind each action, in bursts, before the follower's schedule); replies, actor JoinHandle and outcome of the computation observed; plus real polytune-http-server instances on loopback sockets with stray HTTP requests",
   text="At every (quick: every k-th) idle point of a normal 2-/3-party run one stray command is injected at each party (duplicate schedule, run, consts, validate, mpc_msg with out-of-range sender, mpc_msg before scheduling). Commands that are invalid in every state the actor can be in (decided from the RPC history) must be answered Err; no actor may panic; the computation must still satisfy the C13 oracle.",
   note="Commands whose validity is ambiguous at the injection point are judged for 'no panic' only. The HTTP layer (api.rs) is driven by the second crate httpx with wall-clock timing: verdicts only on HTTP answers and on results that arrived; a result missing after 60 s is inconclusive."),
 "C15": dict(level="fault_enumeration", ref="DESIGN.md §3 C15", engine="pv-server",
   technique="runtime monitoring with cancel injection after every event (incl. while the compile thread is alive); ordering of cancel() completion vs output() calls, actor state and permits at quiescence; plus real polytune-http-server instances cancelled through Cancel::cancel() with a timestamping output receiver",
   text="cancel() is injected at every idle point on each party with gated and ungated MPC messages, while the compile thread of a heavier program is alive, after a stray (rejected) command, together with a consts call that later fails, and on a multi-thread runtime after k*0.7 ms. If it returned Ok: the actor has stopped, a scheduled party with a destination got exactly one notification (Cancelled or the real result), none after cancel returned, and the party's permit is back.",
   note="Exact mode: current-thread runtime with paused clock. Stress mode: multi-thread runtime with real sub-millisecond delays, judged only at quiescence before a 60 s watchdog (else inconclusive). cancel() returning Err is outside the property and only counted. HTTP layer (server.rs / api.rs, crate httpx, mode c15): wall-clock timing; Cancel::cancel() not returning within 30 s is inconclusive."),
 "C16": dict(level="exploration", ref="DESIGN.md §3 C16", engine="pv-server",
   technique="runtime monitoring: incompatible policies driven through scripted and random arrival/delivery orders; schedule results, outputs and msg() call counter observed",
   text="Program or leader mismatch at each single follower and ill-typed programs at each party, n in {2,3}, every leader, validate before and after the follower's schedule: the schedule calls of that follower and of the leader end with an error, no Ok result is delivered anywhere and the client's msg() counter stays 0.",
   note="Two self-declared leaders are out of scope as stated in the property."),
 "C17": dict(level="fault_enumeration", ref="DESIGN.md §3 C17", engine="pv-server",
   technique="runtime monitoring with RPC fault injection: batches of policies under random delivery orders, one failed validate/run/consts RPC, cancels; overlap of leader run intervals from RPC-level observations, permits and actor state at quiescence; plus real polytune-http-server instances behind a logging / failing HTTP proxy with barrier-style control computations",
   text="Batches of 1..8 policies with concurrency 1..3, mixed leaders and destinations; one RPC failure and/or a cancel is injected. Per leader the overlap of [first run RPC issued .. last activity] never exceeds the concurrency; after a failed call the caller's actor has stopped with exactly one error notification (or a failed schedule for validate); when all of a party's policies have ended its whole budget is available.",
   note="Peers of a failed or cancelled policy that keep waiting have not 'ended' and are outside the property; they are visible in the evidence. HTTP layer (api.rs, crate httpx, mode c17): wall-clock timing; a verdict needs a control computation led by the other server to finish, otherwise the scenario is inconclusive."),
 "C18": dict(level="exploration", ref="DESIGN.md §3 C18",
   technique="runtime monitoring: counting channel (operations attempted before return) and panic capture on an enumerated list of invalid arguments",
   text="Every documented-invalid value of each mpc argument and circuit descriptions whose counters disagree with their instructions, used by one party or all parties, n in {2,3}: the call must return Err with 0 channel operations and never panic; a repeated output index must be rejected like that or behave as the de-duplicated set; inconsistent counters must only never panic.",
   note="The list of invalid values is enumerated by hand from the property text; 'rejected up front' is demanded only where the property states it."),
 "C19": dict(level="exploration", ref="DESIGN.md §3 C19",
   technique="runtime monitoring: model-based differential testing of the file-backed and in-memory buffer against a reference model over exhaustive short and random long operation sequences, directory / descriptor check after drop",
   text="All operation sequences up to length 4 over {append sizes around the chunk size, full and abandoned item-wise and chunk-wise reads} for chunk sizes 1,2,5 and random sequences up to length 12 are run against a Vec<Vec<u64>> model, the memory variant and the temp-file variant; items, order and (when all appends but the last have the requested size) chunk boundaries must agree, no file may remain and no descriptor may leak.",
   note="Element type u64 through the wrapper; mpc-level indifference to tmp_dir is observed by C01/C09/C12."),
 "C20": dict(level="exploration", ref="DESIGN.md §3 C20",
   technique="runtime monitoring with sanitizers: differential comparison of SIMD / portable / dispatching primitives against schoolbook references, the same comparison program under Miri (both tiers), valgrind memcheck and AddressSanitizer (thorough)",
   text="Transpose (128 x c for c up to 4096, all alignments, taller and random shapes), carry-less multiply (all basis pairs, structured and random operands), fixed-key AES hashes and the AES counter generator (every request length 0..1100 in one call) are compared with naive references, including a table-free AES-128 written for the harness. The same program on small shapes runs under Miri (undefined behaviour + independent intrinsic semantics); thorough adds memcheck and ASan.",
   note="Generator compared for one call on a fresh generator, as the property states. A clean sanitizer run is not memory safety; it covers the shapes driven."),
 "C01": dict(level="exploration", ref="DESIGN.md §3 C01",
   technique="runtime monitoring: real mpc futures in a deterministic simulator, return values compared with an independent clear-text evaluator",
   text="Every party's return value of the real polytune::mpc is compared with an independent clear-text evaluator over generated valid register circuits, for n=2..5, every evaluator, output sets, temp-file masks, channel capacities and AND counts on both sides of the batch boundaries. Held on the executions produced; not a proof.",
   note="Trusts the harness evaluator (cross-checked against Circuit::eval per case) and the simulated reliable FIFO channel. Circuits/inputs not generated, n>5 and bucket size 3 are out of reach."),
}

NOT_YET = "monitor not built yet in this round (planned, see DESIGN.md)"

def main():
    props = [json.loads(l) for l in open("/verif/properties.jsonl")]
    checks = []
    na = []
    for p in props:
        pid = p["id"]
        c = CHECKS.get(pid)
        if not c:
            na.append({"property_id": pid, "reason": NOT_YET})
            continue
        checks.append({
            "property_id": pid,
            "quick_cmd": f"./check {pid} quick",
            "thorough_cmd": f"./check {pid} thorough",
            "evidence_file": f"/verif/evidence/{pid}.json",
            "replay_cmd_template": f"./check {pid} replay {{path}}",
            "engine": c.get("engine", "pv-sim"),
            "level_claimed": {"category": c["level"], "text": c["text"], "design_ref": c["ref"]},
            "level_note": c["note"],
            "technique": c["technique"],
        })
    m = {
        "version": 1,
        "setup_cmd": "cd /verif && cp -n /repo/Cargo.lock harness/Cargo.lock; cd harness && CARGO_NET_OFFLINE=true cargo build --release --offline",
        "hooks": {
            "guard": "cargo feature `__verif` of crate polytune (off by default)",
            "enable": "the harness depends on polytune by path with features [\"__verif\", \"__bench\"]; ./check rebuilds it from /repo's working tree",
            "baseline_off_cmd": "cd /repo && cargo nextest run --workspace --no-fail-fast --test-threads 8 --offline",
            "source_commits": [l.split()[0] for l in HOOK_COMMITS],
            "add_only": True,
        },
        "engines": [
            {"name": "pv-sim", "path": "/verif/harness", "serves_properties": [c["property_id"] for c in checks if c["engine"] == "pv-sim"],
             "kind_free_text": "deterministic single-thread executor + scheduler-owned network driving the real polytune::mpc futures; adversary rewrites messages; monitors over the event log"},
            {"name": "pv-server", "path": "/verif/harness", "serves_properties": [c["property_id"] for c in checks if c["engine"] == "pv-server"],
             "kind_free_text": "tokio current-thread runtime with paused clock driving real PolicyState actors through a gated in-process PolicyClient"},
        ],
        "checks": checks,
        "not_applicable": na,
        "notes": "Runtime monitoring and sanitizers only. Known findings: /verif/known_findings.json. Seeded breaks: /verif/seeded/.",
    }
    json.dump(m, open("/verif/MANIFEST.json", "w"), indent=1)
    print(f"{len(checks)} checks, {len(na)} not_applicable")

main()
