//! `pv` - runtime monitors for polytune (see /verif/DESIGN.md).
mod adv;
mod alloc;
mod circ;
mod codec;
mod faults;
mod hooks;
mod leak;
mod shard;
mod props;
mod report;
mod runner;
mod server;
mod sim;

fn main() {
    let args: Vec<String> = std::env::args().collect();
    if args.len() < 3 {
        eprintln!("usage: pv <C01..C20> <quick|thorough|replay> [path] [--seed N]");
        std::process::exit(2);
    }
    let prop = args[1].to_uppercase();
    let tier = args[2].clone();
    let mut seed: u64 = std::env::var("VERIF_SEED").ok().and_then(|s| s.parse().ok()).unwrap_or(1);
    let mut path = None;
    let mut i = 3;
    while i < args.len() {
        if args[i] == "--seed" && i + 1 < args.len() {
            seed = args[i + 1].parse().unwrap_or(seed);
            i += 2;
        } else {
            path = Some(args[i].clone());
            i += 1;
        }
    }
    sim::install_panic_hook();
    if prop == "DUMP" {
        props::dump(args.get(2).and_then(|s| s.parse().ok()).unwrap_or(2));
        return;
    }
    let _ = std::fs::create_dir_all(runner::scratch_root());
    let code = if tier == "replay" {
        replay(&prop, path.as_deref())
    } else {
        props::dispatch(&prop, &tier, seed, path.as_deref())
    };
    // remove our scratch directories
    if let Ok(rd) = std::fs::read_dir(runner::scratch_root()) {
        let prefix = format!("{}-", std::process::id());
        for e in rd.flatten() {
            if e.file_name().to_string_lossy().starts_with(&prefix) {
                let _ = std::fs::remove_dir_all(e.path());
            }
        }
    }
    std::process::exit(code);
}

/// `pv <ID> replay <file>`: prints the recorded witness and re-runs the tier / seed that produced it.
/// Protocol coins are not reproducible (DESIGN 2.1), so the case specification is re-executed and
/// the run reports whether the same signature shows up again.
fn replay(prop: &str, path: Option<&str>) -> i32 {
    let Some(path) = path else {
        eprintln!("usage: pv <ID> replay <path>");
        return 2;
    };
    let Ok(text) = std::fs::read_to_string(path) else {
        eprintln!("cannot read {path}");
        return 2;
    };
    let Ok(v) = serde_json::from_str::<serde_json::Value>(&text) else {
        eprintln!("{path} is not JSON");
        return 2;
    };
    let tier = v["tier"].as_str().unwrap_or("quick").to_string();
    let seed = v["seed"].as_u64().unwrap_or(1);
    println!("replaying property={} signature={:?}", v["property"].as_str().unwrap_or(prop), v["signature"].as_str().unwrap_or(""));
    println!("recorded witness:\n{}", serde_json::to_string_pretty(&v["witness"]).unwrap_or_default().lines().take(60).collect::<Vec<_>>().join("\n"));
    println!("re-running {prop} {tier} with seed {seed} (fresh protocol coins) ...");
    props::dispatch(prop, &tier, seed, None)
}
