//! Counting global allocator (monitor for C08): largest single request while a party is polled.
use std::cell::Cell;

thread_local! {
    static PARTY: Cell<usize> = const { Cell::new(usize::MAX) };
    static MAX_REQ: Cell<usize> = const { Cell::new(0) };
}

pub fn set_party(p: Option<usize>) {
    let _ = PARTY.try_with(|c| c.set(p.unwrap_or(usize::MAX)));
}

pub fn reset_max() {
    let _ = MAX_REQ.try_with(|c| c.set(0));
}

pub fn max_request() -> usize {
    MAX_REQ.try_with(|c| c.get()).unwrap_or(0)
}

#[cfg(feature = "count-alloc")]
mod imp {
    use super::*;
    use std::alloc::{GlobalAlloc, Layout, System};

    pub struct Counting;

    #[inline]
    fn note(size: usize) {
        let _ = PARTY.try_with(|p| {
            if p.get() != usize::MAX {
                let _ = MAX_REQ.try_with(|m| {
                    if size > m.get() {
                        m.set(size);
                    }
                });
            }
        });
    }

    // SAFETY: defers to System for every operation; only thread-local counters are touched.
    unsafe impl GlobalAlloc for Counting {
        unsafe fn alloc(&self, l: Layout) -> *mut u8 {
            note(l.size());
            unsafe { System.alloc(l) }
        }
        unsafe fn dealloc(&self, p: *mut u8, l: Layout) {
            unsafe { System.dealloc(p, l) }
        }
        unsafe fn alloc_zeroed(&self, l: Layout) -> *mut u8 {
            note(l.size());
            unsafe { System.alloc_zeroed(l) }
        }
        unsafe fn realloc(&self, p: *mut u8, l: Layout, new: usize) -> *mut u8 {
            note(new);
            unsafe { System.realloc(p, l, new) }
        }
    }

    #[global_allocator]
    static A: Counting = Counting;
}
