//! C19 - spilling to temp files is observationally identical to staying in memory.
use rand::{Rng, SeedableRng};
use rand_chacha::ChaCha8Rng;
use serde_json::{Value, json};

use crate::hooks::pv::VerifBuf;
use crate::report::Report;
use crate::runner::{fresh_scratch_dir, parallel_for, threads};

#[derive(Clone, Debug, PartialEq)]
enum Op {
    Append(usize),
    IterAll,
    IterTake(usize),
    ChunksAll,
    ChunksTake(usize),
}

fn op_name(o: &Op, c: usize) -> String {
    match o {
        Op::Append(k) => format!("append({})", if *k == c { "c".to_string() } else if *k == 3 * c { "3c".to_string() } else if *k + 1 == c { "c-1".to_string() } else if *k == c + 1 { "c+1".to_string() } else { k.to_string() }),
        Op::IterAll => "iter(all)".into(),
        Op::IterTake(k) => format!("iter(take {k})"),
        Op::ChunksAll => "chunks(all)".into(),
        Op::ChunksTake(k) => format!("chunks(take {k})"),
    }
}

fn fd_count() -> usize {
    std::fs::read_dir("/proc/self/fd").map(|d| d.count()).unwrap_or(0)
}

/// Runs one operation sequence against the model, the memory variant and the file variant.
fn run_seq(ops: &[Op], c: usize, tag: u64) -> Result<(), (String, Value)> {
    let dir = fresh_scratch_dir("c19");
    let res = (|| {
        let mut model: Vec<Vec<u64>> = vec![];
        let mut mem = VerifBuf::new(None, 0).map_err(|e| ("io".to_string(), json!(e.to_string())))?;
        let mut file = VerifBuf::new(Some(&dir), 0).map_err(|e| ("io".to_string(), json!(e.to_string())))?;
        let mut next = tag << 20;
        for (step, op) in ops.iter().enumerate() {
            let flat: Vec<u64> = model.iter().flatten().copied().collect();
            let ctx = |what: &str, m: Value, f: Value, want: Value| {
                (what.to_string(), json!({"chunk": c, "ops": ops.iter().map(|o| op_name(o, c)).collect::<Vec<_>>(), "failing_step": step, "memory_variant": m, "file_variant": f, "model": want}))
            };
            match op {
                Op::Append(k) => {
                    let chunk: Vec<u64> = (0..*k as u64).map(|i| next + i).collect();
                    next += *k as u64;
                    mem.write_chunk(&chunk).map_err(|e| ("memory variant: append failed".into(), json!(e)))?;
                    file.write_chunk(&chunk).map_err(|e| ("file variant: append failed".into(), json!(e)))?;
                    model.push(chunk);
                }
                Op::IterAll | Op::IterTake(_) => {
                    let k = if let Op::IterTake(k) = op { *k } else { usize::MAX };
                    let want: Vec<u64> = flat.iter().take(k).copied().collect();
                    let m = mem.iter_take(k).map_err(|e| ("memory variant: iteration failed".into(), json!(e)))?;
                    let f = file.iter_take(k).map_err(|e| ("file variant: iteration failed".into(), json!(e)))?;
                    if f != want || m != want {
                        let which = if f != want { "file variant" } else { "memory variant" };
                        return Err(ctx(&format!("{which}: item-wise read returns different items than were appended"), json!(m), json!(f), json!(want)));
                    }
                }
                Op::ChunksAll | Op::ChunksTake(_) => {
                    let k = if let Op::ChunksTake(k) = op { *k } else { usize::MAX };
                    let m = mem.chunks_take(c, k).map_err(|e| ("memory variant: chunk iteration failed".into(), json!(e)))?;
                    let f = file.chunks_take(c, k).map_err(|e| ("file variant: chunk iteration failed".into(), json!(e)))?;
                    // the file variant returns the chunks as written
                    let want_file: Vec<Vec<u64>> = model.iter().take(k).cloned().collect();
                    if f != want_file {
                        return Err(ctx("file variant: chunk-wise read returns different chunks than were appended", json!(m), json!(f), json!(want_file)));
                    }
                    // the memory variant re-chunks by c
                    let want_mem: Vec<Vec<u64>> = flat.chunks(c).take(k).map(|x| x.to_vec()).collect();
                    if m != want_mem {
                        return Err(ctx("memory variant: chunk-wise read returns different items than were appended", json!(m), json!(f), json!(want_mem)));
                    }
                    // identical boundaries whenever all appends but the last have the requested size
                    let regular = model.iter().rev().skip(1).all(|ch| ch.len() == c) && model.last().map(|l| l.len() <= c && !l.is_empty()).unwrap_or(true);
                    if regular && m != f {
                        return Err(ctx("chunk boundaries differ between memory and file variant although all appends but the last have the requested size", json!(m), json!(f), json!(want_file)));
                    }
                }
            }
        }
        Ok(())
    })();
    // after drop: no file remains, no descriptor leaked
    let left: Vec<String> = std::fs::read_dir(&dir).map(|d| d.flatten().map(|e| e.file_name().to_string_lossy().to_string()).collect()).unwrap_or_default();
    let _ = std::fs::remove_dir_all(&dir);
    res?;
    if !left.is_empty() {
        return Err(("a file remains in the temp directory after the buffer was dropped".into(), json!({"files": left})));
    }
    Ok(())
}

fn alphabet(c: usize) -> Vec<Op> {
    let mut sizes = vec![1usize, c, c + 1, 3 * c];
    if c > 1 {
        sizes.push(c - 1);
    }
    sizes.sort();
    sizes.dedup();
    let mut a: Vec<Op> = sizes.into_iter().map(Op::Append).collect();
    a.extend([Op::IterAll, Op::IterTake(0), Op::IterTake(1), Op::IterTake(c + 1), Op::ChunksAll, Op::ChunksTake(0), Op::ChunksTake(1)]);
    a
}

/// mpc level: the same public configuration under every per-party tmp_dir assignment gives the same
/// results and the same traffic shape, and leaves no file behind.
fn mpc_level(rep: &mut Report, seed: u64, thorough: bool) {
    use crate::circ;
    use crate::runner::{Case, exec_mpc};
    use crate::sim::{EvKind, Outcome, RunEnd};
    let mut rng = ChaCha8Rng::seed_from_u64(seed ^ 0x19c);
    let mut shapes: Vec<(usize, usize)> = vec![(2, 3), (2, 1200), (3, 7), (2, 2100), (3, 1001)];
    if thorough {
        shapes.extend_from_slice(&[(2, 5000), (4, 1001), (2, 9500), (3, 2500)]);
    }
    let cases: Vec<(usize, usize, u64)> = shapes.iter().map(|(n, a)| (*n, *a, rng.random())).collect();
    let outs = parallel_for(cases.len(), threads(), |i| {
        let (n, ands, s) = cases[i];
        let mut rng = ChaCha8Rng::seed_from_u64(s);
        let mut cfg = circ::random_gen_cfg(&mut rng, n, ands);
        if ands > 500 { cfg.others = 60; cfg.extra_regs = 40; cfg.reuse_pct = 50; }
        let c = circ::gen_circuit(&mut rng, &cfg);
        let inputs = circ::random_inputs(&mut rng, &c);
        let expected = circ::eval_clear(&c, &inputs);
        let p_eval = rng.random_range(0..n);
        let masks: Vec<Vec<bool>> = if n == 2 { vec![vec![false, false], vec![true, true], vec![true, false], vec![false, true]] } else { vec![vec![false; n], vec![true; n], (0..n).map(|p| p % 2 == 0).collect(), (0..n).map(|p| p == n - 1).collect()] };
        let mut reference: Option<Vec<Vec<usize>>> = None;
        let mut res: Vec<(String, Option<String>)> = vec![];
        for m in &masks {
            let mut case = Case::new(c.clone(), inputs.clone(), p_eval, (0..n).collect());
            case.tmp = m.clone();
            case.keep_bytes = false;
            let ex = exec_mpc(case);
            let name = m.iter().map(|b| if *b { 'F' } else { 'M' }).collect::<String>();
            let mut sig = None;
            if let RunEnd::HarnessError(e) = &ex.end {
                res.push((name, Some(format!("harness:{e}"))));
                continue;
            }
            if ex.outcomes.iter().any(crate::props::env_failure) {
                res.push((name, Some("harness:temp-file I/O error of the environment".to_string())));
                continue;
            }
            if !(ex.end == RunEnd::AllFinished && ex.outcomes.iter().all(|o| matches!(o, Outcome::Done(Ok(v)) if *v == expected))) {
                let d: Vec<String> = ex.outcomes.iter().map(crate::props::classify).collect();
                sig = Some(format!("mpc does not return the clear-text result under a {} temp-file assignment ({})", if m.iter().all(|b| *b == m[0]) { "uniform" } else { "mixed" }, d.join(" / ")));
            } else if !ex.leftover_files.is_empty() {
                sig = Some("a file remains in a party's temp directory after mpc returned".to_string());
            } else {
                // traffic shape: per ordered pair the sequence of message lengths
                let mut shape = vec![vec![]; n * n];
                for e in &ex.net.log {
                    if e.kind == EvKind::SendCall {
                        shape[e.party * n + e.peer].push(e.len);
                    }
                }
                match &reference {
                    None => reference = Some(shape),
                    Some(r) if *r != shape => sig = Some("traffic (message sizes per pair) depends on the parties' temp-file choice".to_string()),
                    _ => {}
                }
            }
            res.push((name, sig));
        }
        (n, ands, res)
    });
    for (n, ands, res) in outs {
        for (name, sig) in res {
            rep.evaluations += 1;
            match sig {
                Some(s) if s.starts_with("harness:") => rep.harness_error(s),
                Some(s) => rep.violation(s, json!({"n": n, "and_gates": ands, "tmp_assignment(M=memory,F=file)": name})),
                None => {
                    rep.distinct.insert(format!("mpc n={n} ands={} tmp={name}", crate::props::c01::and_class(ands)));
                }
            }
        }
    }
}

/// One-byte items: chunk headers (8 bytes) at every file offset around the multiples of the read-ahead
/// buffer (8 KiB). Appends: one chunk that ends exactly at `o`, then short, long and one-item chunks.
fn byte_offset_part(rep: &mut Report, seed: u64, thorough: bool) {
    let mut targets: Vec<usize> = vec![];
    let windows: &[usize] = if thorough { &[4096, 8192, 16384, 24576, 32768, 65536, 131072] } else { &[8192, 16384, 65536] };
    for w in windows {
        let r = if thorough || *w == 8192 { 40 } else { 12 };
        targets.extend((w - r)..=(w + r));
    }
    let results = parallel_for(targets.len(), threads(), |i| {
        let o = targets[i];
        let mut rng = ChaCha8Rng::seed_from_u64(seed ^ 0xb19 ^ (o as u64) << 8);
        let lens = [o - 8, 5, rng.random_range(2000..9000), 1, rng.random_range(1..40)];
        let model: Vec<Vec<u8>> = lens.iter().map(|l| (0..*l).map(|_| rng.random()).collect()).collect();
        let flat: Vec<u8> = model.iter().flatten().copied().collect();
        let dir = fresh_scratch_dir("c19b");
        let mut out = vec![];
        for (variant, d) in [("memory", None), ("file", Some(dir.as_path()))] {
            let mut b = match polytune::verif::VerifBufU8::new(d, 0) {
                Ok(b) => b,
                Err(e) => return Err(format!("io: {e}")),
            };
            for m in &model {
                if let Err(e) = b.write_chunk(m) {
                    return Err(format!("io: {e}"));
                }
            }
            for round in 0..2 {
                let it = b.iter_all();
                let ch = b.chunks_all(16).map(|c| c.into_iter().flatten().collect::<Vec<u8>>());
                for (how, got) in [("iter", it), ("chunks", ch)] {
                    match got {
                        Ok(g) if g == flat => {}
                        Ok(g) => out.push(json!({"variant": variant, "read": how, "round": round, "second_chunk_header_at_byte": o, "chunk_lengths": lens, "items_expected": flat.len(), "items_read": g.len(), "first_difference": g.iter().zip(&flat).position(|(a, b)| a != b)})),
                        Err(e) => out.push(json!({"variant": variant, "read": how, "round": round, "second_chunk_header_at_byte": o, "chunk_lengths": lens, "error": e})),
                    }
                }
            }
        }
        let _ = std::fs::remove_dir_all(&dir);
        Ok(out)
    });
    let mut n = 0u64;
    for (o, r) in targets.iter().zip(results) {
        rep.evaluations += 1;
        match r {
            Err(e) => rep.harness_error(format!("temp-file I/O error of the environment: {e}")),
            Ok(v) => {
                n += 1;
                rep.distinct.insert(format!("bytes: second chunk header at byte {o}"));
                if let Some(w) = v.into_iter().next() {
                    rep.violation(format!("one-byte items: the {} variant did not return what was appended ({})", w["variant"].as_str().unwrap_or("?"), w["read"].as_str().unwrap_or("?")), w);
                }
            }
        }
    }
    rep.set("byte_offset_sweep_targets", json!(n));
}

pub fn run(tier: &str, seed: u64) -> i32 {
    let thorough = tier == "thorough";
    let mut rep = Report::new("C19", tier, seed, "exploration");
    rep.rule = "model-based: every operation sequence of length <= 4 (exhaustive) over {append(1 | c-1 | c | c+1 | 3c), iter(all), iter(take 0 | 1 | c+1 then drop), chunks(all), chunks(take 0 | 1 then drop)} for c in {1,2,5}, plus random sequences up to length 12 and c up to 9, sequences with chunks of 1100..5000 items (reads abandoned with more than a read-ahead buffer left) and three with chunks of tens of MiB, run against a Vec<Vec<u64>> model, the in-memory variant and the temp-file variant of FileOrMemBuf<u64>; a sweep with one-byte items (FileOrMemBuf<u8>) that puts a chunk header at every byte offset within 12..40 bytes of the multiples of the 8 KiB read-ahead buffer, read back item-wise and chunk-wise twice from both variants; afterwards the directory must be empty and the process must not have gained file descriptors. distinct = operation sequences; non-trivial = the sequence contains at least one append and one read".into();
    rep.assumptions = vec!["element type u64 (the engine stores serde-serialisable share types the same way)".into(), "mpc level: a few circuits on both sides of the 1000-gate batch boundary under all-memory, all-file and mixed assignments (more role assignments under C01 / C09 / C12)".into()];
    let mut seqs: Vec<(Vec<Op>, usize)> = vec![];
    for c in [1usize, 2, 5] {
        let a = alphabet(c);
        let max_len = 4;
        let mut stack: Vec<Vec<Op>> = vec![vec![]];
        while let Some(s) = stack.pop() {
            if !s.is_empty() {
                seqs.push((s.clone(), c));
            }
            if s.len() < max_len {
                for o in &a {
                    let mut t = s.clone();
                    t.push(o.clone());
                    stack.push(t);
                }
            }
        }
    }
    let exhaustive = seqs.len();
    let mut rng = ChaCha8Rng::seed_from_u64(seed ^ 0xc19);
    let n_rand = if thorough { 200_000 } else { 6000 };
    for _ in 0..n_rand {
        let c = rng.random_range(1..10);
        let a = alphabet(c);
        let len = rng.random_range(5..=12);
        let s: Vec<Op> = (0..len)
            .map(|_| {
                if rng.random_bool(0.15) { Op::Append(rng.random_range(1..=3 * c)) } else if rng.random_bool(0.1) { Op::IterTake(rng.random_range(0..20)) } else { a[rng.random_range(0..a.len())].clone() }
            })
            .collect();
        seqs.push((s, c));
    }
    // medium-sized chunks: a read abandoned half way leaves more than a read-ahead buffer (8 KiB) of the
    // file unread, so the shared file offset is somewhere in the middle when the next append happens
    let n_mid = if thorough { 6000 } else { 400 };
    for _ in 0..n_mid {
        let c = rng.random_range(1100..5000);
        let len = rng.random_range(4..=9);
        let mut s: Vec<Op> = vec![Op::Append(c), Op::Append(c)];
        for _ in 0..len {
            s.push(match rng.random_range(0..10) {
                0..=2 => Op::Append(if rng.random_bool(0.7) { c } else { rng.random_range(1..=c) }),
                3 => Op::IterAll,
                4 => Op::IterTake(rng.random_range(0..3 * c)),
                5 => Op::ChunksAll,
                6..=8 => Op::ChunksTake(rng.random_range(0..3)),
                _ => Op::IterTake(rng.random_range(0..3)),
            });
        }
        s.push(Op::IterAll);
        seqs.push((s, c));
    }
    // a few very large chunks (tens of MiB when serialised)
    for (c, tail) in [(1usize << 21, 5usize), ((1 << 21) + 1, 1), (3 << 20, 7)] {
        seqs.push((vec![Op::Append(c), Op::ChunksAll, Op::IterTake(10), Op::Append(tail), Op::IterAll, Op::ChunksTake(1), Op::Append(tail), Op::ChunksTake(0), Op::Append(3), Op::IterAll], c));
    }
    let fd_before = fd_count();
    let results = parallel_for(seqs.len(), threads(), |i| run_seq(&seqs[i].0, seqs[i].1, i as u64));
    let fd_after = fd_count();
    for ((s, c), r) in seqs.iter().zip(results) {
        rep.evaluations += 1;
        let has_append = s.iter().any(|o| matches!(o, Op::Append(_)));
        let has_read = s.iter().any(|o| !matches!(o, Op::Append(_)));
        if has_append && has_read {
            rep.distinct.insert(format!("c={c} {}", s.iter().map(|o| op_name(o, *c)).collect::<Vec<_>>().join(",")));
        }
        match r {
            Err((sig, w)) if sig == "io" || w.to_string().contains("No space left") || w.to_string().contains("StorageFull") => rep.harness_error(format!("temp-file I/O error of the environment: {sig} {w}")),
            Err((sig, w)) => rep.violation(sig, w),
            Ok(()) => {
                if rep.evaluations % 4001 == 7 {
                    rep.sample(json!({"chunk": c, "ops": s.iter().map(|o| op_name(o, *c)).collect::<Vec<_>>(), "result": "model == memory == file"}));
                }
            }
        }
    }
    byte_offset_part(&mut rep, seed, thorough);
    mpc_level(&mut rep, seed, thorough);
    rep.set("exhaustive_sequences_len_le_4", json!(exhaustive));
    rep.set("random_sequences", json!(n_rand));
    rep.set("exhaustive", json!(false));
    rep.set("open_file_descriptors_before_after", json!([fd_before, fd_after]));
    if fd_after > fd_before + 2 {
        rep.violation("file descriptors leaked by dropped buffers", json!({"before": fd_before, "after": fd_after}));
    }
    rep.finish()
}
