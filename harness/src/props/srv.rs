//! C14 - C17: scenarios on the server-core explorer.
use rand::{Rng, SeedableRng};
use rand_chacha::ChaCha8Rng;
use serde_json::{Value, json};

use crate::props::c13;
use crate::report::Report;
use crate::server::{self, Inject, Program, RpcKind, RunRecord, Scenario, Strategy, When};
use crate::shard::{self, CaseResult};

#[derive(Clone)]
pub struct Case {
    pub prop: &'static str,
    pub key: String,
    pub sc: Scenario,
    pub progs: Vec<Program>,
    pub inputs: Vec<Vec<u64>>,
    pub out_masks: Vec<Vec<bool>>,
    pub leaders: Vec<usize>,
    /// C16: (follower with the incompatible policy, kind)
    pub mismatch: Option<(usize, &'static str)>,
    /// run on the multi-thread stress runtime (seed) instead of the paused-clock explorer
    pub mt: Option<u64>,
}

fn base_scenario(prog: &Program, leader: usize, out_mask: &[bool], inputs: &[u64], strategy: Strategy, comp_id: u128) -> Scenario {
    let pols = (0..prog.parties).map(|p| server::policy_for(prog, comp_id, p, leader, inputs[p], out_mask[p])).collect();
    Scenario { policies: vec![pols], concurrency: 2, strategy, gate_msgs: true, gate_replies: false, fail_rpc: None, injections: vec![], skip_schedule: vec![], max_steps: 20_000, fail_outputs: false, alt_policies: vec![], hold_msgs_of_after_cancel: None }
}

/// number of idle points of the undisturbed run (for "inject at every point k")
fn pilot_steps(sc: &Scenario) -> usize {
    server::explore(sc).steps
}

// ---------------------------------------------------------------- C14

pub fn cases_c14(tier: &str, seed: u64) -> Vec<Case> {
    let thorough = tier == "thorough";
    let mut v = vec![];
    let progs = server::programs();
    let chosen: Vec<&Program> = vec![&progs[2], &progs[4], &progs[6]]; // 2-party with consts, 3-party, 3-party all consts
    for (pi, prog) in chosen.iter().enumerate() {
        let n = prog.parties;
        for leader in 0..n {
            if !thorough && pi > 0 && leader != (seed as usize + pi) % n {
                continue;
            }
            let mask: Vec<bool> = (0..n).map(|p| p != 1 || n == 3).collect();
            let inputs: Vec<u64> = (0..n as u64).map(|p| (seed + 13 * p + 7 * pi as u64) % 256).collect();
            for late in [false, true] {
            // late = the followers receive the leader's validate before their own schedule is submitted
            let strat = if late { Strategy::RpcFirst(leader) } else { Strategy::Script(vec![]) };
            let mut base = base_scenario(prog, leader, &mask, &inputs, strat.clone(), 0x14000 + pi as u128);
            // per party: the same policy with a program that does not type-check (for stray schedules)
            base.alt_policies = base.policies[0].iter().map(|p| { let mut q = p.clone(); q.program = "pub fn main(a: u8, b: u8) -> u8 { a ^ }".to_string(); q }).collect();
            let steps = if late { pilot_steps(&base).min(2 * n + 4) } else { pilot_steps(&base) };
            let stride = if thorough || late { 1 } else if n == 2 { 2 } else { 5 };
            for k in (0..=steps).filter(|k| k % stride == (seed as usize) % stride || *k < 6) {
                for party in 0..n {
                    let mut injs: Vec<Inject> = vec![
                        Inject::DupSchedule { comp: 0, party },
                        Inject::Run { comp: 0, party },
                        Inject::Consts { comp: 0, party, from: (party + 1) % n },
                        Inject::Validate { comp: 0, party },
                        Inject::AltSchedule { comp: 0, party, alt: party },
                        Inject::MpcMsg { comp: 0, party, from: n },
                        Inject::MpcMsg { comp: 0, party, from: n + 1 },
                        Inject::MpcMsg { comp: 0, party, from: usize::MAX },
                        Inject::Consts { comp: 0, party, from: n },
                        Inject::ConstsWrong { comp: 0, party, from: (party + 1) % n },
                        Inject::ConstsWrong { comp: 0, party, from: (party + n - 1) % n },
                        Inject::ConstsNonEmpty { comp: 0, party, from: n + 2 },
                        Inject::ConstsNonEmpty { comp: 0, party, from: usize::MAX },
                    ];
                    if !late && (k % 4 == 1 || k == steps || k < 16) {
                        injs.push(Inject::MpcMsgBurst { comp: 0, party, from: party, count: 12 });
                        injs.push(Inject::MpcMsgBurst { comp: 0, party, from: n + 1, count: 12 });
                    }
                    if k == 0 {
                        injs.push(Inject::MpcMsg { comp: 0, party, from: (party + 1) % n });
                        injs.push(Inject::MpcMsg { comp: 0, party, from: party });
                    }
                    if late {
                        injs.truncate(5);
                    }
                    if !thorough && !late {
                        // quick: rotate through the kinds instead of taking all of them at every point
                        let keep = (k + party + seed as usize) % 3;
                        injs = injs.into_iter().enumerate().filter(|(i, x)| i % 3 == keep || (k == 0 && *i >= 10) || matches!(x, Inject::MpcMsgBurst { .. })).map(|(_, x)| x).collect();
                    }
                    for (ii, inj) in injs.into_iter().enumerate() {
                        let mut sc = base.clone();
                        sc.injections = vec![(When::Step(k), inj.clone())];
                        v.push(Case { prop: "C14", key: format!("{} L{} {}step{} p{} {}", prog.name, leader, if late { "late-followers " } else { "" }, k, party, inj_name(&inj)), sc, progs: vec![(*prog).clone()], inputs: vec![inputs.clone()], out_masks: vec![mask.clone()], leaders: vec![leader], mismatch: None, mt: None });
                        // the same command queued right behind the command that action k causes
                        if k >= 1 && k <= steps && (ii < 5 || matches!(inj, Inject::MpcMsgBurst { .. })) && (thorough || k < 16) {
                            let mut sc = base.clone();
                            sc.injections = vec![(When::After(k), inj.clone())];
                            v.push(Case { prop: "C14", key: format!("{} L{} {}behind-action{} p{} {}", prog.name, leader, if late { "late-followers " } else { "" }, k, party, inj_name(&inj)), sc, progs: vec![(*prog).clone()], inputs: vec![inputs.clone()], out_masks: vec![mask.clone()], leaders: vec![leader], mismatch: None, mt: None });
                        }
                    }
                }
            }
            }
        }
    }
    v
}

fn inj_name(i: &Inject) -> String {
    match i {
        Inject::DupSchedule { .. } => "dup-schedule".into(),
        Inject::Run { .. } => "run".into(),
        Inject::Consts { from, .. } => format!("consts(from={})", if *from == usize::MAX { "usize::MAX".to_string() } else { from.to_string() }),
        Inject::ConstsWrong { .. } => "consts-wrong".into(),
        Inject::ConstsNonEmpty { from, .. } => format!("consts-nonempty(from={})", if *from == usize::MAX { "usize::MAX".to_string() } else { from.to_string() }),
        Inject::Validate { .. } => "validate".into(),
        Inject::ValidateAlt { .. } => "validate-alt".into(),
        Inject::ValidateDropped { .. } => "validate-dropped".into(),
        Inject::MpcMsgBurst { count, from, party, .. } => if from == party { format!("{count} mpc_msgs naming the receiver itself as sender") } else { format!("{count} mpc_msgs from unknown sender {from}") },
        Inject::MpcMsg { from, .. } => format!("mpc_msg(from={})", if *from == usize::MAX { "usize::MAX".to_string() } else { from.to_string() }),
        Inject::Cancel { .. } => "cancel".into(),
        Inject::AltSchedule { .. } => "alt-schedule".into(),
    }
}

fn judge_c14(c: &Case, rec: &RunRecord) -> Vec<(String, Value)> {
    let mut out = vec![];
    let n = c.progs[0].parties;
    let leader = c.leaders[0];
    for (_, p, _, panicked) in &rec.actors {
        if *panicked {
            let what = rec.injected.first().map(|i| i.what.clone()).unwrap_or_default();
            out.push((format!("state machine panicked after a stray command ({what})"), json!({"party": p})));
        }
    }
    let mut all_must_err = !rec.injected.is_empty();
    let mut ends_unscheduled = false;
    for inj in &rec.injected {
        let p = inj.party;
        let sched_t = rec.schedule.iter().find(|s| s.party == p).map(|s| s.t_call);
        let scheduled_before = sched_t.map(|t| t < inj.t_call).unwrap_or(false);
        let validate_rpc = rec.rpcs.iter().find(|r| r.kind == RpcKind::Validate && r.to == p && r.fate != "unused");
        let validate_done_before = validate_rpc.and_then(|r| r.t_done).map(|t| t < inj.t_call).unwrap_or(false);
        let validate_released_before = validate_rpc.and_then(|r| r.t_release).map(|t| t < inj.t_call).unwrap_or(false);
        if inj.what == "mpc_msg-self-burst" {
            // no queue of the engine is fed by the party itself: whatever the answer, such messages
            // must be answered and must not influence the computation
            if inj.result.is_none() && rec.quiescent {
                out.push(("a stray MPC message naming the receiver itself as sender was never answered (the state machine is blocked)".to_string(), json!({"party": p, "step": inj.step})));
                break;
            }
            continue;
        }
        let must_err = if inj.what.starts_with("mpc_msg") {
            let from: usize = inj.what.trim_start_matches("mpc_msg(from=").trim_end_matches(')').parse().unwrap_or(usize::MAX);
            from >= n || !scheduled_before
        } else if inj.what == "dup-schedule" {
            scheduled_before
        } else if inj.what.starts_with("consts") && inj.what.contains("from=") {
            // out-of-range party index
            true
        } else if inj.what == "run" || inj.what == "consts" || inj.what == "consts-wrong" {
            // certainly too late: the party has already sent MPC messages (state Executing or later)
            let executing = rec.rpcs.iter().any(|r| r.kind == RpcKind::Msg && r.from == p && r.fate != "unused" && r.t_issue < inj.t_call);
            if executing { true } else if p == leader { !scheduled_before } else { !validate_released_before }
        } else if inj.what == "alt-schedule" {
            // a schedule whose program does not type-check is never acceptable; it may end a state machine
            // that has no policy yet, but not a computation that is under way
            if !scheduled_before {
                ends_unscheduled = true;
            }
            true
        } else if inj.what == "validate" {
            // a follower that has already been handed the leader's validate (delivered at an earlier idle
            // point, so it has been processed) is in ValidateRequested or later: a second one is invalid
            let validate_delivered_before = validate_rpc.map(|r| r.fate == "delivered").unwrap_or(false) && validate_released_before;
            if p == leader { scheduled_before } else { validate_done_before || validate_delivered_before }
        } else {
            false
        };
        if !must_err {
            all_must_err = false;
            continue;
        }
        match &inj.result {
            Some(r) if r.starts_with("Err") => {}
            Some(r) => out.push((format!("a command that is invalid in every possible state was answered {} ({})", r, inj.what), json!({"injection": inj.what, "party": p, "step": inj.step}))),
            None => out.push((format!("a stray command was never answered ({})", inj.what), json!({"injection": inj.what, "party": p, "step": inj.step}))),
        }
    }
    // the computation under way must be undisturbed by commands that were answered with an error
    if all_must_err && !ends_unscheduled && out.is_empty() {
        if let Some((sig, w)) = c13::judge(rec, &c.progs[0], &c.inputs[0], &c.out_masks[0], 0, c.sc.concurrency) {
            let what = rec.injected.first().map(|i| i.what.clone()).unwrap_or_default();
            out.push((format!("a rejected stray command ({what}) changed the outcome of the computation: {sig}"), w));
        }
    }
    out
}

// ---------------------------------------------------------------- C15

pub fn cases_c15(tier: &str, seed: u64) -> Vec<Case> {
    let thorough = tier == "thorough";
    let mut v = vec![];
    let progs = server::programs();
    for (pi, prog) in [&progs[3], &progs[6]].iter().enumerate() {
        let n = prog.parties;
        for leader in 0..n {
            if !thorough && leader != (seed as usize + pi) % n {
                continue;
            }
            let mask: Vec<bool> = (0..n).map(|p| p != n - 1).collect();
            let inputs: Vec<u64> = (0..n as u64).map(|p| (seed * 3 + 11 * p + pi as u64) % 256).collect();
            for gate_msgs in [true, false] {
                let mut base = base_scenario(prog, leader, &mask, &inputs, Strategy::Script(vec![]), 0x15000 + pi as u128);
                base.gate_msgs = gate_msgs;
                // cancel while the party's peers have become unresponsive (its MPC messages are never delivered
                // after the cancel): the permit must still come back
                if gate_msgs {
                    let steps0 = pilot_steps(&base);
                    for k in (4..=steps0).step_by(if thorough { 3 } else { 11 }) {
                        for party in 0..n {
                            let mut sc = base.clone();
                            sc.hold_msgs_of_after_cancel = Some(party);
                            sc.injections = vec![(When::Step(k), Inject::Cancel { comp: 0, party })];
                            v.push(Case { prop: "C15", key: format!("{} L{} unresponsive-peers step{} cancel p{}", prog.name, leader, k, party), sc, progs: vec![(*prog).clone()], inputs: vec![inputs.clone()], out_masks: vec![mask.clone()], leaders: vec![leader], mismatch: None, mt: None });
                        }
                    }
                }
                // cancel while / right after the party's own result is being delivered
                for party in (0..n).filter(|p| mask[*p]) {
                    for (wname, when) in [("during-output", When::DuringOutput), ("after-output", When::AfterOutput)] {
                        let mut sc = base.clone();
                        sc.injections = vec![(when, Inject::Cancel { comp: 0, party })];
                        v.push(Case { prop: "C15", key: format!("{} L{} gated={} cancel {} p{}", prog.name, leader, gate_msgs, wname, party), sc, progs: vec![(*prog).clone()], inputs: vec![inputs.clone()], out_masks: vec![mask.clone()], leaders: vec![leader], mismatch: None, mt: None });
                    }
                }
                let steps = pilot_steps(&base);
                let stride = if thorough { 1 } else if n == 2 { 1 } else { 2 };
                for k in (0..=steps + 1).filter(|k| k % stride == 0 || *k < 8) {
                    for party in 0..n {
                        let mut sc = base.clone();
                        sc.injections = vec![(When::Step(k), Inject::Cancel { comp: 0, party })];
                        v.push(Case { prop: "C15", key: format!("{} L{} gated={} step{} cancel p{}", prog.name, leader, gate_msgs, k, party), sc, progs: vec![(*prog).clone()], inputs: vec![inputs.clone()], out_masks: vec![mask.clone()], leaders: vec![leader], mismatch: None, mt: None });
                        // the same cancel queued right behind the command that action k causes (transient states)
                        if k >= 1 && k <= steps && (thorough || gate_msgs || k < 14) {
                            let mut sc = base.clone();
                            sc.injections = vec![(When::After(k), Inject::Cancel { comp: 0, party })];
                            v.push(Case { prop: "C15", key: format!("{} L{} gated={} behind-action{} cancel p{}", prog.name, leader, gate_msgs, k, party), sc, progs: vec![(*prog).clone()], inputs: vec![inputs.clone()], out_masks: vec![mask.clone()], leaders: vec![leader], mismatch: None, mt: None });
                        }
                    }
                }
            }
        }
    }
    // a stray (rejected) command first, then the cancel: the cancel must still work
    {
        let prog = &progs[3];
        for leader in 0..2 {
            let mask = vec![true, true];
            let inputs = vec![(seed % 100) + 3, 41];
            let mut base = base_scenario(prog, leader, &mask, &inputs, Strategy::Script(vec![]), 0x15d00);
            base.gate_msgs = true;
            let steps = pilot_steps(&base);
            let ks: Vec<usize> = (2..steps).step_by(if thorough { 2 } else { 5 }).collect();
            for k in ks {
                for party in 0..2 {
                    for (si, stray) in [Inject::Run { comp: 0, party }, Inject::Consts { comp: 0, party, from: 1 - party }, Inject::DupSchedule { comp: 0, party }, Inject::Validate { comp: 0, party }].into_iter().enumerate() {
                        if !thorough && (k + party + si) % 2 == 1 {
                            continue;
                        }
                        let mut sc = base.clone();
                        sc.injections = vec![(When::Step(k), stray.clone()), (When::Step(k + 2), Inject::Cancel { comp: 0, party })];
                        v.push(Case { prop: "C15", key: format!("{} L{} step{} {} then cancel p{}", prog.name, leader, k, inj_name(&stray), party), sc, progs: vec![prog.clone()], inputs: vec![inputs.clone()], out_masks: vec![mask.clone()], leaders: vec![leader], mismatch: None, mt: None });
                    }
                }
            }
        }
    }
    // cancel while a consts call is in flight that later fails (the detached consts task must not
    // notify the destination after cancel() has returned)
    {
        let prog = &progs[3];
        let n = 2;
        for leader in 0..n {
            let mask = vec![true, true];
            let inputs = vec![(seed % 200) + 1, 77];
            let base = base_scenario(prog, leader, &mask, &inputs, Strategy::Script(vec![]), 0x15c00);
            let steps = pilot_steps(&base);
            for k in 0..=steps.min(14) {
                for party in 0..n {
                    for which in 0..2 {
                        for script in [vec![], vec![0, 0, 0, 1], vec![0, 0, 1, 1, 1]] {
                            if !thorough && !script.is_empty() && (k + party + which) % 2 == 1 {
                                continue;
                            }
                            let mut sc = base.clone();
                            sc.strategy = Strategy::Script(script.clone());
                            sc.fail_rpc = Some((RpcKind::Consts, which));
                            sc.injections = vec![(When::Step(k), Inject::Cancel { comp: 0, party })];
                            v.push(Case { prop: "C15", key: format!("{} L{} step{} cancel p{} failing-consts#{} script{:?}", prog.name, leader, k, party, which, script), sc, progs: vec![prog.clone()], inputs: vec![inputs.clone()], out_masks: vec![mask.clone()], leaders: vec![leader], mismatch: None, mt: None });
                        }
                    }
                }
            }
        }
    }
    // multi-thread runtime, real sub-millisecond delays: cancel after k * 0.7 ms
    {
        let prog = &progs[3];
        let reps = if thorough { 12 } else { 1 };
        for r in 0..reps {
            for k in (0..48usize).step_by(if thorough { 1 } else { 2 }) {
                let party = (k + r) % 2;
                let leader = (k / 2 + r) % 2;
                let mask = vec![true, k % 5 != 0];
                let inputs = vec![(seed % 50) + k as u64, 200 - k as u64];
                let mut sc = base_scenario(prog, leader, &mask, &inputs, Strategy::Script(vec![]), 0x15e00 + k as u128);
                sc.injections = vec![(When::Step(k), Inject::Cancel { comp: 0, party })];
                v.push(Case { prop: "C15", key: format!("multi-thread {} L{} cancel p{} after ~{}us #{r}", prog.name, leader, party, k * 700), sc, progs: vec![prog.clone()], inputs: vec![inputs], out_masks: vec![mask], leaders: vec![leader], mismatch: None, mt: Some(seed ^ ((k * 131 + r * 7) as u64)) });
            }
        }
    }
    // cancel while the program is being compiled (heavier program so that the window is observable)
    let heavy = server::heavy_program();
    for party in 0..2 {
        for leader in 0..2 {
            for rep in 0..if thorough { 8 } else { 4 } {
                let mask = vec![true, true];
                let inputs = vec![3 + rep as u64, 200];
                let mut sc = base_scenario(&heavy, leader, &mask, &inputs, Strategy::Script(vec![]), 0x15f00 + rep as u128);
                sc.gate_msgs = false;
                sc.injections = vec![(When::DuringCompile, Inject::Cancel { comp: 0, party })];
                v.push(Case { prop: "C15", key: format!("heavy L{leader} during-compile cancel p{party} #{rep}"), sc, progs: vec![heavy.clone()], inputs: vec![inputs], out_masks: vec![mask], leaders: vec![leader], mismatch: None, mt: None });
            }
        }
    }
    v
}

fn judge_c15(c: &Case, rec: &RunRecord) -> (Vec<(String, Value)>, String) {
    let mut out = vec![];
    let Some(cancel) = rec.injected.iter().find(|i| i.what == "cancel") else {
        return (out, "cancel-not-injected".into());
    };
    let p = cancel.party;
    let state_class = if cancel.compile_thread_alive { "compile-in-progress".to_string() } else { format!("step{}", cancel.step.min(12)) };
    let Some(res) = &cancel.result else {
        if rec.quiescent {
            out.push(("cancel() never returned although the system is quiescent".to_string(), json!({"party": p, "step": cancel.step})));
        }
        return (out, state_class);
    };
    if !res.starts_with("Ok") {
        return (out, format!("{state_class}:cancel-returned-Err"));
    }
    let t_c = cancel.t_return.unwrap_or(u64::MAX);
    if let Some((_, _, finished, _)) = rec.actors.iter().find(|(cc, pp, _, _)| *cc == 0 && *pp == p) {
        if !*finished {
            out.push(("cancel() returned Ok but the state machine is still running".to_string(), json!({"party": p})));
        }
    }
    let outs: Vec<_> = rec.outputs.iter().filter(|o| o.comp == 0 && o.party == p).collect();
    if c.out_masks[0][p] {
        // a destination exists only once the party has a policy, i.e. its schedule was submitted before the cancel
        // (a schedule answered StateMachineStopped reached the actor after the cancel: the party never had a policy)
        let scheduled_before = rec.schedule.iter().any(|s| s.party == p && s.t_call < cancel.t_call && s.result.as_deref() != Some("Err:StateMachineStopped"));
        if outs.len() > 1 {
            out.push((format!("the output destination was notified {} times around a cancel", outs.len()), json!({"party": p, "outputs": outs.iter().map(|o| format!("{:?}", o.result)).collect::<Vec<_>>()})));
        } else if outs.len() == 1 {
            let o = outs[0];
            if o.t <= t_c && o.t_done > t_c {
                out.push(("cancel() returned Ok while the notification of the output destination was still in flight".to_string(), json!({"party": p, "t_cancel_return": t_c, "t_output_start": o.t, "t_output_done": o.t_done})));
            }
            if o.t > t_c {
                out.push(("something was sent to the output destination after cancel() had returned Ok".to_string(), json!({"party": p, "t_cancel_return": t_c, "t_output": o.t, "output": format!("{:?}", o.result)})));
            }
            match &o.result {
                Err(k) if k == "Cancelled" => {}
                Ok(v) => {
                    let expected = server::expected_literal(&c.progs[0], &c.inputs[0]);
                    if *v != expected && c.progs[0].name != "heavy-compile" {
                        out.push(("a wrong result was delivered around a cancel".to_string(), json!({"party": p})));
                    }
                }
                Err(k) => out.push((format!("the output destination received {} instead of the cancellation notice", k.split('(').next().unwrap_or(k)), json!({"party": p, "error": k, "cancel_step": cancel.step, "compile_thread_alive": cancel.compile_thread_alive}))),
            }
        } else if scheduled_before {
            out.push(("cancel() returned Ok but the output destination was never notified".to_string(), json!({"party": p, "step": cancel.step})));
        }
    }
    // the cancelled party's own permit (other parties' permits are C17's subject)
    if rec.quiescent && rec.permits.get(p).map(|x| *x != c.sc.concurrency).unwrap_or(false) {
        out.push(("the cancelled party's concurrency permit is still held after cancel() returned Ok".to_string(), json!({"party": p, "permits": rec.permits})));
    }
    (out, state_class)
}

// ---------------------------------------------------------------- C16

pub fn cases_c16(tier: &str, seed: u64) -> Vec<Case> {
    let thorough = tier == "thorough";
    let mut v = vec![];
    let progs = server::programs();
    for (pi, prog) in [&progs[0], &progs[4]].iter().enumerate() {
        let n = prog.parties;
        for leader in 0..n {
            for f in (0..n).filter(|f| *f != leader) {
                for kind in ["program", "program-whitespace-only", "leader"] {
                    let inputs: Vec<u64> = (0..n as u64).map(|p| (seed + 5 * p) % 256).collect();
                    let mask = vec![true; n];
                    // both arrival orders and delivery orders: small DFS by scripts 0/1 prefixes + random
                    let mut strategies: Vec<Strategy> = vec![Strategy::Script(vec![]), Strategy::Script(vec![1]), Strategy::Script(vec![0, 1]), Strategy::Script(vec![1, 1]), Strategy::Script(vec![1, 0, 1])];
                    for r in 0..if thorough { 16 } else { 8 } {
                        strategies.push(Strategy::Random(seed ^ (r * 7919 + pi as u64 * 31 + f as u64)));
                    }
                    for (si, st) in strategies.into_iter().enumerate() {
                        let mut sc = base_scenario(prog, leader, &mask, &inputs, st, 0x16000 + pi as u128);
                        if kind == "program-whitespace-only" {
                            // both sources consist of the same tokens; only a line break moves, which ends
                            // a line comment at a different place: `a // c \n ^ b` computes a ^ b, `a // c ^ b \n` computes a
                            let with_break = |p: &str| p.replace("{ a ^ b", "{ a // mask\n ^ b").replace("{ if a > b", "{ // pick\n if a > b");
                            let without_break = |p: &str| p.replace("{ a ^ b", "{ a // mask ^ b\n").replace("{ if a > b { c } else { a ^ b } }", "{ // pick if a > b { c } else\n { a ^ b } }");
                            for q in 0..n {
                                let src = sc.policies[0][q].program.clone();
                                sc.policies[0][q].program = if q == f { without_break(&src) } else { with_break(&src) };
                            }
                        }
                        let pol = &mut sc.policies[0][f];
                        if kind == "program-whitespace-only" {
                        } else if kind == "program" {
                            pol.program = pol.program.replace('^', "&").replace("a > b", "b > a");
                        } else {
                            // a different leader, while f still regards itself as a follower
                            pol.leader = (0..n + 3).find(|l| *l != leader && *l != f).unwrap_or(n + 1);
                        }
                        if sc.policies[0].iter().any(|p| polytune::garble_lang::check(&p.program).is_err()) {
                            eprintln!("C16 generator: a mismatch program does not type-check ({} {kind})", prog.name);
                            continue;
                        }
                        v.push(Case { prop: "C16", key: format!("{} L{} mismatch-{} at p{} order{}", prog.name, leader, kind, f, si), sc, progs: vec![(*prog).clone()], inputs: vec![inputs.clone()], out_masks: vec![mask.clone()], leaders: vec![leader], mismatch: Some((f, kind)), mt: None });
                    }
                }
            }
            // the incompatible follower is re-scheduled with the leader's program while it waits for
            // validation; the re-schedule is refused (wrong state) and must not change what is validated
            for f in (0..n).filter(|f| *f != leader) {
                let inputs: Vec<u64> = (0..n as u64).map(|p| (seed + 9 * p) % 256).collect();
                let mask = vec![true; n];
                for k in 1..=4usize {
                    for st in [Strategy::Script(vec![f.min(n - 1)]), Strategy::Script(vec![f, 0, 0]), Strategy::Random(seed ^ (k as u64 * 131 + f as u64))] {
                        let mut sc = base_scenario(prog, leader, &mask, &inputs, st, 0x16200 + pi as u128);
                        let good = sc.policies[0][f].clone();
                        sc.policies[0][f].program = good.program.replace('^', "&").replace("a > b", "b > a");
                        sc.alt_policies = vec![good];
                        sc.injections = vec![(When::Step(k), Inject::AltSchedule { comp: 0, party: f, alt: 0 })];
                        v.push(Case { prop: "C16", key: format!("{} L{} refused-reschedule at p{} step{}", prog.name, leader, f, k), sc, progs: vec![(*prog).clone()], inputs: vec![inputs.clone()], out_masks: vec![mask.clone()], leaders: vec![leader], mismatch: Some((f, "program-after-refused-reschedule")), mt: None });
                    }
                }
            }
            // compatible policies; a validate request for the same computation but another program (or
            // naming another leader) reaches a follower at every point of the run: never answered Ok
            for f in (0..n).filter(|f| *f != leader) {
                let inputs: Vec<u64> = (0..n as u64).map(|p| (seed + 3 * p) % 256).collect();
                let mask = vec![true; n];
                let base = base_scenario(prog, leader, &mask, &inputs, Strategy::Script(vec![]), 0x16300 + pi as u128);
                let steps = pilot_steps(&base).min(if thorough { 60 } else { 24 });
                for k in 0..=steps {
                    for (ai, what) in ["program", "leader"].into_iter().enumerate() {
                        if !thorough && (k + ai + f) % 2 == 1 && k > 8 {
                            continue;
                        }
                        let mut sc = base.clone();
                        let mut other = sc.policies[0][leader].clone();
                        if what == "program" {
                            other.program = other.program.replace('^', "&").replace("a > b", "b > a");
                        } else {
                            other.leader = (0..n).find(|l| *l != leader).unwrap_or(0);
                        }
                        sc.alt_policies = vec![other];
                        sc.injections = vec![(if k % 2 == 0 { When::Step(k) } else { When::After(k) }, Inject::ValidateAlt { comp: 0, party: f, alt: 0 })];
                        v.push(Case { prop: "C16", key: format!("{} L{} foreign-validate({what}) at p{} point{}", prog.name, leader, f, k), sc, progs: vec![(*prog).clone()], inputs: vec![inputs.clone()], out_masks: vec![mask.clone()], leaders: vec![leader], mismatch: Some((f, "foreign-validate")), mt: None });
                    }
                }
            }
            // a follower that is not scheduled yet receives its leader's validate, whose caller gives up; then a
            // validate for another program / leader; then its own schedule: the second request is never answered Ok
            for f in (0..n).filter(|f| *f != leader) {
                let inputs: Vec<u64> = (0..n as u64).map(|p| (seed + 3 * p) % 256).collect();
                let mask = vec![true; n];
                for what in ["program", "leader"] {
                    for first_dropped in [true, false] {
                        let mut sc = base_scenario(prog, leader, &mask, &inputs, Strategy::Script(vec![]), 0x16400 + pi as u128);
                        sc.skip_schedule = (0..n).filter(|p| *p != f).map(|p| (0, p)).collect();
                        let mut other = sc.policies[0][leader].clone();
                        if what == "program" {
                            other.program = other.program.replace('^', "&").replace("a > b", "b > a");
                        } else {
                            other.leader = (0..n).find(|l| *l != leader).unwrap_or(0);
                        }
                        sc.alt_policies = vec![other];
                        let first = if first_dropped { Inject::ValidateDropped { comp: 0, party: f } } else { Inject::Validate { comp: 0, party: f } };
                        sc.injections = vec![(When::Step(0), first), (When::Step(0), Inject::ValidateAlt { comp: 0, party: f, alt: 0 })];
                        v.push(Case { prop: "C16", key: format!("{} L{} parked-validate({}) then foreign-validate({what}) then schedule at p{}", prog.name, leader, if first_dropped { "caller gone" } else { "pending" }, f), sc, progs: vec![(*prog).clone()], inputs: vec![inputs.clone()], out_masks: vec![mask.clone()], leaders: vec![leader], mismatch: Some((f, "foreign-validate")), mt: None });
                    }
                }
            }
            // ill-typed program at one party
            for bad in 0..n {
                let inputs: Vec<u64> = (0..n as u64).map(|p| (seed + 5 * p) % 256).collect();
                let mask = vec![true; n];
                for st in [Strategy::Script(vec![]), Strategy::Random(seed ^ bad as u64)] {
                    let mut sc = base_scenario(prog, leader, &mask, &inputs, st, 0x16100 + pi as u128);
                    sc.policies[0][bad].program = "pub fn main(a: u8, b: u8) -> u8 { a ^ true }".into();
                    v.push(Case { prop: "C16", key: format!("{} L{} ill-typed at p{}", prog.name, leader, bad), sc, progs: vec![(*prog).clone()], inputs: vec![inputs.clone()], out_masks: vec![mask.clone()], leaders: vec![leader], mismatch: Some((bad, "ill-typed")), mt: None });
                }
            }
        }
    }
    v
}

fn judge_c16(c: &Case, rec: &RunRecord) -> Vec<(String, Value)> {
    let mut out = vec![];
    let (f, kind) = c.mismatch.unwrap_or((0, ""));
    let leader = c.leaders[0];
    let res = |p: usize| rec.schedule.iter().find(|s| s.party == p).and_then(|s| s.result.clone());
    if kind == "program-after-refused-reschedule" {
        // the scenario only exists if the incompatible schedule came first and the re-schedule was refused
        let orig = rec.schedule.iter().find(|s| s.party == f).map(|s| s.t_call);
        let alt = rec.injected.iter().find(|i| i.what == "alt-schedule");
        let refused = alt.and_then(|a| a.result.clone()).map(|r| r.starts_with("Err")).unwrap_or(false);
        let ordered = match (orig, alt) { (Some(o), Some(a)) => o < a.t_call, _ => false };
        if !(refused && ordered) {
            return out;
        }
    }
    if kind == "foreign-validate" {
        for inj in rec.injected.iter().filter(|i| i.what == "validate-alt") {
            if inj.result.as_deref() == Some("Ok") {
                out.push(("a validate request for another program / leader than the party's own policy was answered Ok".to_string(), json!({"party": inj.party, "step": inj.step, "case": c.key})));
            }
        }
        return out;
    }
    let must_fail: Vec<usize> = if kind == "ill-typed" { vec![f] } else { vec![f, leader] };
    for p in must_fail {
        match res(p) {
            Some(r) if r.starts_with("Err") => {}
            Some(r) => out.push((format!("schedule of {} returned {} although the policies are incompatible ({kind})", if p == leader { "the leader" } else { "the incompatible party" }, r), json!({"party": p}))),
            None => {
                if rec.quiescent {
                    out.push((format!("schedule of {} never returned although the system is quiescent ({kind})", if p == leader { "the leader" } else { "the incompatible party" }), json!({"party": p})));
                }
            }
        }
    }
    if kind != "ill-typed" || f == leader {
        if let Some(o) = rec.outputs.iter().find(|o| o.result.is_ok()) {
            out.push(("a successful result was delivered although the policies are incompatible".to_string(), json!({"party": o.party})));
        }
        if rec.msg_calls > 0 {
            out.push(("MPC protocol messages were exchanged although the policies are incompatible".to_string(), json!({"msg_calls": rec.msg_calls})));
        }
    }
    for (_, p, _, panicked) in &rec.actors {
        if *panicked {
            out.push(("state machine panicked on incompatible policies".to_string(), json!({"party": p})));
        }
    }
    out
}

// ---------------------------------------------------------------- C17

pub fn cases_c17(tier: &str, seed: u64) -> Vec<Case> {
    let thorough = tier == "thorough";
    let mut rng = ChaCha8Rng::seed_from_u64(seed ^ 0xc17);
    let mut v = vec![];
    let mut v_extra: Vec<Case> = vec![];
    fn vcases_push(v: &mut Vec<Case>, c: Case) { v.push(c); }
    let progs = server::programs();
    let two: Vec<&Program> = progs.iter().filter(|p| p.parties == 2).collect();
    let n_cases = if thorough { 2500 } else { 400 };
    for i in 0..n_cases {
        let batch = 1 + (i % 8).min(if thorough { 7 } else { 4 });
        let concurrency = 1 + i % 3;
        let mut pols = vec![];
        let mut ps = vec![];
        let mut inputs = vec![];
        let mut masks = vec![];
        let mut leaders = vec![];
        for c in 0..batch {
            let prog = two[rng.random_range(0..two.len())];
            let leader = rng.random_range(0..2);
            let mask = vec![rng.random_bool(0.6), rng.random_bool(0.6)];
            let inp = vec![rng.random_range(0..256), rng.random_range(0..256)];
            pols.push((0..2).map(|p| server::policy_for(prog, 0x17000 + (i * 16 + c) as u128, p, leader, inp[p], mask[p])).collect());
            ps.push(prog.clone());
            inputs.push(inp);
            masks.push(mask);
            leaders.push(leader);
        }
        let fail = match i % 4 {
            0 => None,
            1 => Some((RpcKind::Validate, rng.random_range(0..batch))),
            2 => Some((RpcKind::Run, rng.random_range(0..batch))),
            _ => Some((RpcKind::Consts, rng.random_range(0..batch.max(2)))),
        };
        let mut injections = vec![];
        if i % 5 == 4 {
            injections.push((When::Step(rng.random_range(0..30)), Inject::Cancel { comp: rng.random_range(0..batch), party: rng.random_range(0..2) }));
        }
        let sc = Scenario { policies: pols, concurrency, strategy: Strategy::Random(seed ^ (i as u64).wrapping_mul(0x9e3779b97f4a7c15)), gate_msgs: i % 2 == 0, gate_replies: i % 3 == 1, fail_rpc: fail, injections, skip_schedule: vec![], max_steps: 60_000, fail_outputs: i % 7 == 3, alt_policies: vec![], hold_msgs_of_after_cancel: None };
        v.push(Case { prop: "C17", key: format!("batch{batch} conc{concurrency} fail={} cancel={} dest-unreachable={}", fail.map(|(k, _)| format!("{k:?}")).unwrap_or("none".into()), i % 5 == 4, i % 7 == 3), sc, progs: ps, inputs, out_masks: masks, leaders, mismatch: None, mt: None });
    }
    // the two single-computation shapes named in the property, for every failing RPC kind and output choice
    for kind in [RpcKind::Validate, RpcKind::Run, RpcKind::Consts] {
        for url in [true, false] {
            for leader in 0..2 {
                let prog = &progs[3];
                let mask = vec![url, url];
                let inp = vec![17, 99];
                let mut sc = base_scenario(prog, leader, &mask, &inp, Strategy::Script(vec![]), 0x17f00);
                sc.concurrency = 1;
                sc.fail_rpc = Some((kind, 0));
                v.push(Case { prop: "C17", key: format!("single fail={kind:?} url={url} L{leader}"), sc: sc.clone(), progs: vec![prog.clone()], inputs: vec![inp.clone()], out_masks: vec![mask.clone()], leaders: vec![leader], mismatch: None, mt: None });
                if url {
                    // double fault: the error notification cannot be delivered either
                    for which in 0..2 {
                        let mut sc2 = sc.clone();
                        sc2.fail_outputs = true;
                        sc2.fail_rpc = Some((kind, which));
                        v.push(Case { prop: "C17", key: format!("single fail={kind:?}#{which} dest-unreachable L{leader}"), sc: sc2, progs: vec![prog.clone()], inputs: vec![inp.clone()], out_masks: vec![mask.clone()], leaders: vec![leader], mismatch: None, mt: None });
                    }
                }
            }
        }
    }
    // every party's compilation fails (a party delivers its constant under another name than the program
    // reads): the policies end, with or without output destination, and every permit comes back
    for (pi, prog) in [&progs[3], &progs[6]].into_iter().enumerate() {
        let n = prog.parties;
        for leader in 0..n {
            for url in [true, false] {
                for bad in 0..n {
                    if !thorough && (leader + bad + pi) % 2 == 1 {
                        continue;
                    }
                    let mask = vec![url; n];
                    let inp: Vec<u64> = (0..n as u64).map(|p| 9 + 31 * p).collect();
                    let mut sc = base_scenario(prog, leader, &mask, &inp, Strategy::Script(vec![]), 0x17d00 + pi as u128);
                    sc.concurrency = 1;
                    // rename the constant of party `bad` in its own policy only
                    let v = serde_json::to_value(&sc.policies[0][bad]).unwrap_or(Value::Null);
                    let mut v2 = v.clone();
                    if let Some(m) = v2["constants"].as_object_mut() {
                        let renamed: serde_json::Map<String, Value> = m.iter().map(|(k, val)| (format!("{k}_RENAMED"), val.clone())).collect();
                        *m = renamed;
                    }
                    if let Ok(p2) = serde_json::from_value(v2) {
                        sc.policies[0][bad] = p2;
                    }
                    v.as_null();
                    vcases_push(&mut v_extra, Case { prop: "C17", key: format!("compile-error {} L{leader} url={url} misnamed-constant-at-p{bad}", prog.name), sc, progs: vec![(*prog).clone()], inputs: vec![inp.clone()], out_masks: vec![mask.clone()], leaders: vec![leader], mismatch: Some((bad, "compile-error")), mt: None });
                }
            }
        }
    }
    v.extend(v_extra);
    // three parties: the failing call goes to the first, the second, ... follower (k-th issued call of its kind)
    for (pi, prog) in [&progs[4], &progs[6]].into_iter().enumerate() {
        for kind in [RpcKind::Validate, RpcKind::Run, RpcKind::Consts] {
            for leader in 0..3 {
                if !thorough && pi == 1 && leader != (seed as usize) % 3 {
                    continue;
                }
                for which in 0..(if kind == RpcKind::Consts { 4 } else { 2 }) {
                    for url in [true, false] {
                        let mask = vec![url, url, url];
                        let inp = vec![5, 77, 201];
                        let mut sc = base_scenario(prog, leader, &mask, &inp, Strategy::Script(vec![]), 0x17e00 + pi as u128);
                        sc.concurrency = 1;
                        sc.fail_rpc = Some((kind, which));
                        v.push(Case { prop: "C17", key: format!("three-party {} fail={kind:?}#{which} url={url} L{leader}", prog.name), sc, progs: vec![(*prog).clone()], inputs: vec![inp.clone()], out_masks: vec![mask.clone()], leaders: vec![leader], mismatch: None, mt: None });
                    }
                }
            }
        }
    }
    v
}

fn judge_c17(c: &Case, rec: &RunRecord) -> Vec<(String, Value)> {
    let mut out = vec![];
    if let Some((_, "compile-error")) = c.mismatch {
        if rec.quiescent {
            for (cc, p, finished, _) in &rec.actors {
                if !*finished {
                    out.push((format!("after a compile error the policy lingers (state machine still running, output destination {})", if c.out_masks[*cc][*p] { "present" } else { "absent" }), json!({"party": p, "permits": rec.permits})));
                }
            }
            if rec.permits.iter().any(|x| *x != c.sc.concurrency) {
                out.push(("after all policies ended with a compile error a concurrency permit is still held".to_string(), json!({"permits": rec.permits, "budget": c.sc.concurrency})));
            }
        }
        return out;
    }
    for (p, m) in rec.max_open_runs.iter().enumerate() {
        if *m > c.sc.concurrency {
            out.push(("a party ran more computations as leader at the same time than its configured concurrency".to_string(), json!({"party": p, "open_runs": m, "concurrency": c.sc.concurrency})));
        }
    }
    let failed: Vec<_> = rec.rpcs.iter().filter(|r| r.fate == "failed").collect();
    for r in &failed {
        let caller = r.from;
        let comp = r.comp;
        let kind = format!("{:?}", r.kind).to_lowercase();
        let has_url = c.out_masks[comp][caller];
        if let Some((_, _, finished, _)) = rec.actors.iter().find(|(cc, pp, _, _)| *cc == comp && *pp == caller) {
            if !*finished && rec.quiescent {
                out.push((format!("after a failed {kind} call the policy lingers at the caller (state machine still running, output destination {})", if has_url { "present" } else { "absent" }), json!({"comp": comp, "caller": caller, "permits": rec.permits})));
            }
        }
        let outs: Vec<_> = rec.outputs.iter().filter(|o| o.comp == comp && o.party == caller).collect();
        let sched = rec.schedule.iter().find(|s| s.comp == comp && s.party == caller);
        let sched_err = sched.and_then(|s| s.result.clone()).map(|r| r.starts_with("Err")).unwrap_or(false);
        if has_url && rec.quiescent {
            let n_err = outs.iter().filter(|o| o.result.is_err()).count();
            if r.kind == RpcKind::Validate {
                if !(sched_err || n_err == 1) {
                    out.push(("a failed validate call was reported neither through schedule nor to the output destination".to_string(), json!({"comp": comp, "caller": caller})));
                }
            } else if n_err != 1 || outs.iter().any(|o| o.result.is_ok()) {
                out.push((format!("after a failed {kind} call the output destination received {} error notifications and {} results instead of exactly one error", n_err, outs.len() - n_err), json!({"comp": comp, "caller": caller, "outputs": outs.iter().map(|o| format!("{:?}", o.result)).collect::<Vec<_>>()})));
            }
        }
    }
    // "after all scheduled policies have ended": judged per party, once every state machine of
    // that party has stopped (a peer that waits for a cancelled / failed party has not ended)
    if rec.quiescent {
        for (p, avail) in rec.permits.iter().enumerate() {
            let all_ended = rec.actors.iter().filter(|(_, pp, _, _)| *pp == p).all(|(cc, _, finished, _)| *finished || rec.outputs.iter().any(|o| o.comp == *cc && o.party == p));
            if all_ended && *avail != c.sc.concurrency {
                let why = if failed.is_empty() { "after all its policies ended".to_string() } else { format!("after a failed {:?} call and all its policies ended", failed[0].kind).to_lowercase() };
                out.push((format!("the concurrency budget of a party is not fully available {why}"), json!({"party": p, "permits": rec.permits, "budget": c.sc.concurrency})));
            }
        }
    }
    for (_, p, _, panicked) in &rec.actors {
        if *panicked {
            out.push(("state machine panicked".to_string(), json!({"party": p})));
        }
    }
    // without any fault every computation must succeed (C13 oracle per computation)
    if failed.is_empty() && c.sc.injections.is_empty() && rec.quiescent {
        for comp in 0..c.progs.len() {
            if let Some((sig, w)) = c13::judge(rec, &c.progs[comp], &c.inputs[comp], &c.out_masks[comp], comp, c.sc.concurrency) {
                out.push((format!("fault-free batch: {sig}"), w));
                break;
            }
        }
    }
    out
}

// ---------------------------------------------------------------- driver

pub fn cases(prop: &str, tier: &str, seed: u64) -> Vec<Case> {
    match prop {
        "C14" => cases_c14(tier, seed),
        "C15" => cases_c15(tier, seed),
        "C16" => cases_c16(tier, seed),
        _ => cases_c17(tier, seed),
    }
}

pub fn run_case(c: &Case) -> Value {
    let rec = match c.mt {
        Some(seed) => server::explore_mt(&c.sc, seed),
        None => server::explore(&c.sc),
    };
    let (viol, class) = match c.prop {
        "C14" => (judge_c14(c, &rec), String::new()),
        "C15" => judge_c15(c, &rec),
        "C16" => (judge_c16(c, &rec), String::new()),
        _ => (judge_c17(c, &rec), String::new()),
    };
    json!({
        "quiescent": rec.quiescent,
        "end": rec.end,
        "class": class,
        "violations": viol.iter().map(|(s, w)| json!({"signature": s, "witness": w})).collect::<Vec<_>>(),
        "record": if viol.is_empty() { Value::Null } else { server::record_json(&rec) },
        "summary": json!({"case": c.key, "steps": rec.steps, "coordination_rpcs": rec.rpcs.iter().filter(|x| x.kind != RpcKind::Msg && x.fate != "unused").count(), "mpc_msgs": rec.msg_calls,
            "injected": rec.injected.iter().map(|i| json!({"what": i.what, "party": i.party, "step": i.step, "result": i.result, "compile_thread_alive": i.compile_thread_alive})).collect::<Vec<_>>(),
            "schedule_results": rec.schedule.iter().map(|s| json!({"party": s.party, "comp": s.comp, "result": s.result})).collect::<Vec<_>>(),
            "outputs": rec.outputs.iter().map(|o| json!({"comp": o.comp, "party": o.party, "result": format!("{:?}", o.result)})).collect::<Vec<_>>(),
            "permits": rec.permits, "max_open_leader_runs": rec.max_open_runs, "saw_compile_thread": rec.saw_compile_thread,
            "failed_rpcs": rec.rpcs.iter().filter(|r| r.fate == "failed").map(|r| format!("{:?} {}->{} comp{}", r.kind, r.from, r.to, r.comp)).collect::<Vec<_>>()}),
    })
}

pub fn child(prop: &str, tier: &str, seed: u64, a: shard::ShardArgs) {
    crate::sim::set_quiet_panics(true);
    let cs = cases(prop, tier, seed);
    shard::child_loop(cs.len(), a.shard, a.of, a.from, |i| run_case(&cs[i]));
}

pub fn run(prop: &'static str, tier: &str, seed: u64) -> i32 {
    let level = if prop == "C16" { "exploration" } else { "fault_enumeration" };
    let mut rep = Report::new(prop, tier, seed, level);
    rep.rule = match prop {
        "C14" => "a normal 2- or 3-party run on the explorer; at (every / every k-th) idle point one stray command is injected at each party: duplicate schedule, run, consts, validate, mpc_msg with sender index n, n+1, usize::MAX (and, before scheduling, in-range senders). A command counts as definitely invalid only if it is invalid in every state the actor can be in given the RPC history; those must be answered Err, no actor may panic, and the C13 oracle must still hold for the computation. distinct = (program, leader, idle point, party, command kind); non-trivial = the command was injected and classified. HTTP layer: two polytune-http-server instances on loopback sockets, per scenario one 2-party computation and one stray HTTP request (duplicate / ill-typed schedule, run, consts, validate, msg with own / out-of-range sender, unknown computation ids; before the schedules or 0..150 ms after them): requests invalid in every state get a non-2xx answer, both destinations still receive the correct result exactly once, both servers answer /health afterwards".to_string(),
        "C15" => "cancel() injected at every idle point (coordination and, with gated MPC messages, MPC events) on each party, with MPC messages gated and ungated, plus cancels injected while the compile thread of a heavier program is alive. Oracle when cancel() returned Ok: actor stopped at quiescence, exactly one notification (Cancelled, or the real result) if the party has a destination and had been scheduled, nothing sent to it after cancel returned, all permits back. distinct = (program, leader, gating, idle point, party); non-trivial = cancel() returned Ok. HTTP layer (hx c15): a real polytune-http-server with ServerOpts::cancel and 1..3 scheduled two-party policies is cancelled through Cancel::cancel() 0..260 ms after its schedule calls were answered; per scheduled policy the output receiver must have seen exactly one notification, none after cancel() returned, a delivered result must be correct".to_string(),
        "C16" => "program or leader mismatch at each single follower that still regards itself as follower, and ill-typed programs at each party, n in {2,3}, every leader, scripted arrival / delivery orders (validate before and after the follower's schedule) plus random orders. Oracle: the schedule calls of that follower and of the leader end with an error, no Ok output anywhere, zero msg() calls, no panic. distinct = (program, leader, mismatch kind, party, order); every case is non-trivial".to_string(),
        _ => "batches of 1..8 two-party policies with concurrency 1..3, mixed leaders, output destination present or absent, random delivery orders, one failure injected into a single validate / run / consts RPC, cancels mixed in, plus the single-computation shapes for each failing RPC kind x destination x leader. Oracle: per leader the number of overlapping [first run RPC issued .. last RPC / output activity] intervals never exceeds the concurrency; at quiescence all permits are back; after a failed call the caller's actor has stopped and (run, consts) its destination got exactly one error notification, (validate) schedule returned Err or the destination got one. distinct = (batch size, concurrency, failing kind, cancel, case index); non-trivial = the scenario reached quiescence. HTTP layer (hx c17): real servers with ServerOpts::concurrency 1..2, batches of 3..5 policies led by one server, a logging proxy in front of the follower that fails one validate / run / consts request with 400 / 404 / 500 / 503: overlap of [run seen at proxy .. leader notification seen at destination] <= concurrency; a finally failed call gives exactly one error notification; afterwards `concurrency` control computations whose run requests are held at the proxy until all have arrived must succeed (whole budget back), with a control led by the other server to tell a leaked permit from load (otherwise inconclusive)".to_string(),
    };
    rep.assumptions = vec!["exact quiescence: paused clock idle, no pending delivery, no extra OS thread".into(), "C14 additionally drives the HTTP layer (real servers on loopback sockets, wall-clock timing, 2 parties); C13 / C15-C17 are decided at the server-core boundary".into()];
    let cs = cases(prop, tier, seed);
    let results = shard::run_parent(prop, tier, seed, cs.len(), crate::runner::threads(), &[]);
    let mut classes: std::collections::BTreeMap<String, u64> = Default::default();
    for (i, (c, res)) in cs.iter().zip(results).enumerate() {
        rep.evaluations += 1;
        match res {
            CaseResult::Aborted(d, e) => rep.harness_error(format!("explorer process died ({d}) in {}: {e}", c.key)),
            CaseResult::Done(v) => {
                let end = v["end"].as_str().unwrap_or("");
                if !v["quiescent"].as_bool().unwrap_or(false) {
                    rep.inconclusive(end);
                    continue;
                }
                let class = v["class"].as_str().unwrap_or("");
                if !class.is_empty() {
                    *classes.entry(class.to_string()).or_insert(0) += 1;
                }
                if prop != "C15" || !class.contains("cancel-returned-Err") {
                    rep.distinct.insert(if prop == "C17" { format!("{} #{i}", c.key) } else { c.key.clone() });
                }
                let viols = v["violations"].as_array().cloned().unwrap_or_default();
                for viol in &viols {
                    rep.violation(viol["signature"].as_str().unwrap_or("?").to_string(), json!({"case": c.key, "witness": viol["witness"], "record": v["record"]}));
                }
                if viols.is_empty() && i % 37 == 3 {
                    rep.sample(v["summary"].clone());
                }
            }
        }
    }
    if !classes.is_empty() {
        rep.set("cancel_points", json!(classes));
    }
    if prop == "C14" {
        http_layer(&mut rep, tier, seed);
    }
    if prop == "C15" {
        http_c15(&mut rep, tier, seed);
    }
    if prop == "C17" {
        http_c17(&mut rep, tier, seed);
    }
    rep.finish()
}

/// C14 at the HTTP layer (api.rs): `httpx/target/release/hx` starts two real polytune-http-server
/// instances and an output receiver on loopback sockets and runs 2-party computations, each with one stray
/// HTTP request; this function judges its per-scenario records.
fn http_layer(rep: &mut Report, tier: &str, seed: u64) {
    let root = std::env::var("PV_ROOT").unwrap_or_else(|_| "/verif".into());
    let exe = std::path::Path::new(&root).join("httpx/target/release/hx");
    if !exe.exists() {
        rep.set("http_layer", json!("not run: httpx/target/release/hx has not been built (./check builds it)"));
        rep.inconclusive("HTTP-layer scenarios not run (hx binary missing)");
        return;
    }
    let n = if tier == "thorough" { 440 } else { 88 };
    let out = match std::process::Command::new(&exe).arg(seed.to_string()).arg(n.to_string()).output() {
        Ok(o) => o,
        Err(e) => {
            rep.harness_error(format!("cannot run hx: {e}"));
            return;
        }
    };
    let text = String::from_utf8_lossy(&out.stdout);
    let mut seen = 0u64;
    let mut health_ok = false;
    for l in text.lines() {
        let Ok(d) = serde_json::from_str::<Value>(l) else { continue };
        if let Some(h) = d.get("final_health") {
            health_ok = h.as_array().map(|a| a.iter().all(|x| x.as_u64() == Some(200))).unwrap_or(false);
            if !health_ok {
                rep.violation("an HTTP server no longer answers /health after the stray requests".to_string(), d.clone());
            }
            rep.set("http_layer_wall_s", d["wall_s"].clone());
            continue;
        }
        if d.get("scenario").is_none() {
            continue;
        }
        seen += 1;
        rep.evaluations += 1;
        let kind = d["kind"].as_str().unwrap_or("?").to_string();
        let moment = d["moment_ms"].as_i64().unwrap_or(0);
        rep.distinct.insert(format!("http {} {} leader={} target={}", kind, if moment < 0 { "before-schedule".to_string() } else { format!("+{moment}ms") }, d["leader"], d["target"]));
        // requests that are invalid in every state must be refused
        let must_refuse = matches!(kind.as_str(), "ill-typed-schedule" | "run-unknown-id" | "consts-unknown-sender" | "consts-unknown-id" | "msg-out-of-range" | "msg-own-index" | "msg-unknown-id" | "msg-own-index-burst");
        let statuses: Vec<Value> = d["stray_status"].as_array().cloned().unwrap_or_default();
        if must_refuse {
            for st in &statuses {
                match st.as_u64() {
                    Some(c) if (200..300).contains(&c) => rep.violation(format!("HTTP layer: a request that is invalid in every state was answered {c} ({kind})"), d.clone()),
                    Some(_) => {}
                    None => rep.violation(format!("HTTP layer: a stray request was not answered ({kind}): {}", st.as_str().unwrap_or("?")), d.clone()),
                }
            }
        }
        if !d["outcome_judged"].as_bool().unwrap_or(false) {
            continue;
        }
        let outs = d["outputs"].as_array().cloned().unwrap_or_default();
        let expected = d["expected"].as_u64().unwrap_or(u64::MAX);
        let mut good = 0;
        let mut bad: Option<String> = None;
        for o in &outs {
            if o["body"]["type"] == "success" && o["body"]["details"]["NumUnsigned"][0].as_u64() == Some(expected) {
                good += 1;
            } else {
                bad = Some(o["body"]["type"].as_str().unwrap_or("?").to_string());
            }
        }
        if let Some(b) = bad {
            rep.violation(format!("HTTP layer: a refused stray request ({kind}) changed the outcome of the running computation (output destination received '{b}')"), d.clone());
        } else if outs.len() > 2 {
            rep.violation(format!("HTTP layer: an output destination was notified more than once after a stray request ({kind})"), d.clone());
        } else if good < 2 {
            // nothing (or not everything) arrived within the wall-clock watchdog: not a verdict
            rep.inconclusive("HTTP layer: results did not arrive within 60 s");
        }
    }
    rep.set("http_layer_scenarios", json!(seen));
    if seen == 0 {
        rep.harness_error(format!("hx produced no scenario records: {}", String::from_utf8_lossy(&out.stderr).lines().last().unwrap_or("")));
    } else if !health_ok {
        rep.inconclusive("hx did not report the final health of the servers");
    }
}


/// Runs `hx <mode> <seed> <n>` in `procs` processes (seeds seed*16+i) and returns the JSON records.
fn run_hx(rep: &mut Report, mode: &str, seed: u64, n: usize, procs: usize) -> Vec<Value> {
    let root = std::env::var("PV_ROOT").unwrap_or_else(|_| "/verif".into());
    let exe = std::path::Path::new(&root).join("httpx/target/release/hx");
    if !exe.exists() {
        rep.set("http_layer", json!("not run: httpx/target/release/hx has not been built (./check builds it)"));
        rep.inconclusive("HTTP-layer scenarios not run (hx binary missing)");
        return vec![];
    }
    let children: Vec<_> = (0..procs)
        .map(|i| std::process::Command::new(&exe).arg(mode).arg((seed.wrapping_mul(16) + i as u64).to_string()).arg(n.to_string()).stdout(std::process::Stdio::piped()).stderr(std::process::Stdio::null()).spawn())
        .collect();
    let mut v = vec![];
    for c in children {
        match c.and_then(|c| c.wait_with_output()) {
            Ok(o) => {
                for l in String::from_utf8_lossy(&o.stdout).lines() {
                    if let Ok(d) = serde_json::from_str::<Value>(l) {
                        v.push(d);
                    }
                }
            }
            Err(e) => rep.harness_error(format!("cannot run hx: {e}")),
        }
    }
    v
}

/// C15 at the HTTP layer (server.rs `Cancel`, api.rs `cancel_all`): a real server with 1..3 scheduled
/// two-party policies (leader or follower, states between Validated and finished) is cancelled through
/// `Cancel::cancel()`; the output receiver timestamps every notification.
fn http_c15(rep: &mut Report, tier: &str, seed: u64) {
    let thorough = tier == "thorough";
    let recs = run_hx(rep, "c15", seed, if thorough { 150 } else { 40 }, if thorough { 4 } else { 1 });
    let mut seen = 0u64;
    let mut kinds = std::collections::BTreeMap::new();
    for d in recs.iter().filter(|d| d.get("c15_scenario").is_some()) {
        seen += 1;
        rep.evaluations += 1;
        if !d["cancel_returned"].as_bool().unwrap_or(false) {
            rep.inconclusive("HTTP layer: Cancel::cancel() did not return within 30 s");
            continue;
        }
        let t_ret = d["t_cancel_return"].as_f64().unwrap_or(f64::MAX);
        let t_call = d["t_cancel_call"].as_f64().unwrap_or(0.0);
        for c in d["per_computation"].as_array().cloned().unwrap_or_default() {
            if c["schedule_status_at_cancelled_server"].as_i64() != Some(200) {
                continue;
            }
            let ns = c["notifications_at_cancelled_server"].as_array().cloned().unwrap_or_default();
            let class = match ns.first() {
                None => "none".to_string(),
                Some(n) => format!("{}{}", n["type"].as_str().unwrap_or("?"), if n["t"].as_f64().unwrap_or(0.0) < t_call { " before the cancel call" } else { " during the cancel call" }),
            };
            *kinds.entry(class.clone()).or_insert(0u64) += 1;
            rep.distinct.insert(format!("http cancel: {} policies, delay {} ms, leader={}, {}", d["computations"], d["delay_ms"], c["leader"], class));
            if ns.is_empty() {
                rep.violation("HTTP layer: Cancel::cancel() returned but the output destination of a scheduled policy was never notified".to_string(), d.clone());
            } else if ns.len() > 1 {
                rep.violation("HTTP layer: the output destination of a cancelled server was notified more than once".to_string(), d.clone());
            } else if ns.iter().any(|n| n["t"].as_f64().unwrap_or(0.0) > t_ret) {
                rep.violation("HTTP layer: a notification was sent after Cancel::cancel() had returned".to_string(), d.clone());
            } else if ns[0]["type"] == "success" && ns[0]["ok"] != true {
                rep.violation("HTTP layer: the result delivered by a cancelled server is wrong".to_string(), d.clone());
            }
        }
    }
    rep.set("http_cancel_scenarios", json!(seen));
    rep.set("http_cancel_notification_classes", json!(kinds));
    if seen == 0 && !rep.rule.is_empty() {
        rep.inconclusive("HTTP layer: no cancel scenario was observed");
    }
}

/// C17 at the HTTP layer (ServerOpts::concurrency, api.rs): the leader's run requests pass a logging proxy
/// that can answer one validate / run / consts request with an error status; see `hx c17`.
fn http_c17(rep: &mut Report, tier: &str, seed: u64) {
    let thorough = tier == "thorough";
    let recs = run_hx(rep, "c17", seed, if thorough { 40 } else { 10 }, if thorough { 6 } else { 3 });
    let mut seen = 0u64;
    let mut max_overlap = std::collections::BTreeMap::new();
    for d in recs.iter().filter(|d| d.get("c17_scenario").is_some()) {
        seen += 1;
        rep.evaluations += 1;
        let conc = d["concurrency"].as_u64().unwrap_or(0) as usize;
        let comps = d["per_computation"].as_array().cloned().unwrap_or_default();
        let has_dest = d["leader_has_destination"].as_bool().unwrap_or(false);
        let fr = &d["failed_request"];
        rep.distinct.insert(format!("http budget: conc {} batch {} dest {} fail {} {} status {}", conc, d["computations"], has_dest, fr["kind"].as_str().unwrap_or("none"), fr["occurrence"], fr["status"]));
        // (1) overlap of [run seen at the proxy .. leader's notification seen at the destination]
        let mut ev: Vec<(f64, i32)> = vec![];
        for c in &comps {
            if let (Some(a), Some(b)) = (c["run_seen_at_proxy"].as_f64(), c["leader_notifications"].get(0).and_then(|n| n["t"].as_f64())) {
                if b > a {
                    ev.push((a, 1));
                    ev.push((b, -1));
                }
            }
        }
        ev.sort_by(|x, y| x.0.partial_cmp(&y.0).unwrap().then(x.1.cmp(&y.1)));
        let (mut cur, mut mx) = (0i32, 0i32);
        for (_, dlt) in ev {
            cur += dlt;
            mx = mx.max(cur);
        }
        let e = max_overlap.entry(format!("concurrency {conc}")).or_insert(0i32);
        *e = (*e).max(mx);
        if mx as usize > conc {
            rep.violation("HTTP layer: more computations were led at the same time than the configured concurrency".to_string(), d.clone());
            continue;
        }
        // (2) the policy hit by a failing call ends at the caller
        let reverse_ok = d["control_led_by_the_other_server"]["type"] == "success";
        let failed_id = fr["computation"].as_str().map(|s| s.to_string());
        let mut final_failure = false;
        if let Some(fid) = &failed_id {
            if let Some(c) = comps.iter().find(|c| c["id"].as_str() == Some(fid.as_str())) {
                let ln = c["leader_notifications"].as_array().cloned().unwrap_or_default();
                let retried = !c["follower_notifications"].as_array().map(|a| a.is_empty()).unwrap_or(true) || ln.iter().any(|n| n["type"] == "success");
                if !retried && fr["status"].as_u64().unwrap_or(0) >= 500 {
                    // transient status: the HTTP client of the server retries it; not completed yet
                    rep.inconclusive("HTTP layer: a request answered with a transient status had not been retried successfully when the scenario ended");
                    continue;
                }
                if !retried {
                    final_failure = true;
                    if has_dest {
                        let errs = ln.iter().filter(|n| n["type"] == "error").count();
                        let idx = comps.iter().position(|c| c["id"].as_str() == Some(fid.as_str())).unwrap_or(0);
                        let sched_err = fr["kind"] == "validate" && d["schedule_status"][2 * idx].as_i64() != Some(200);
                        if errs > 1 {
                            rep.violation("HTTP layer: a failed call was reported to the output destination more than once".to_string(), d.clone());
                            continue;
                        }
                        if errs == 0 && !sched_err {
                            if reverse_ok {
                                rep.violation(format!("HTTP layer: after a failed {} call (status {}) the caller's policy did not end with an error notification", fr["kind"].as_str().unwrap_or("?"), fr["status"]), d.clone());
                            } else {
                                rep.inconclusive("HTTP layer: no error notification and the control computation did not finish either (load)");
                            }
                            continue;
                        }
                    }
                }
            }
        }
        // (3) the whole budget is available again
        let ended = d["all_ended_within_60s"].as_bool().unwrap_or(false);
        let ctl_ok = d["control_led_by_same_server"]["type"] == "success" && d["control_runs_held_together_at_proxy"].as_u64().unwrap_or(0) as usize >= conc;
        if ended && !ctl_ok {
            if reverse_ok {
                rep.violation(format!("HTTP layer: after all policies ended the server could not lead {conc} computation(s) at the same time (budget not returned)"), d.clone());
            } else {
                rep.inconclusive("HTTP layer: control computations did not finish in either direction (load)");
            }
        } else if !ended {
            if final_failure && reverse_ok && !ctl_ok {
                rep.violation("HTTP layer: after a failed call the computations queued behind it at the same leader never ran (permit not returned)".to_string(), d.clone());
            } else {
                rep.inconclusive("HTTP layer: a batch did not end within 60 s");
            }
        }
    }
    rep.set("http_budget_scenarios", json!(seen));
    rep.set("http_budget_max_overlap_seen", json!(max_overlap));
    if seen == 0 {
        rep.inconclusive("HTTP layer: no budget scenario was observed");
    }
}
