//! C14 at the HTTP layer: real polytune-http-server instances on loopback sockets, a 2-party run per
//! scenario and one stray request (duplicate / ill-typed schedule, run, constants, validate, MPC message
//! with in-range, own and out-of-range sender index, unknown computation ids) at a chosen moment.
//! Prints one JSON line per scenario; the verdicts are made by `pv C14`.
use std::sync::{Arc, Mutex};
use std::time::{Duration, Instant};

use axum::{Router, body::Bytes, extract::State, http::Uri, routing::post};
use polytune_http_server::{Server, ServerOpts};
use serde_json::{Value, json};
use url::Url;
use uuid::Uuid;

type Outs = Arc<Mutex<Vec<(String, Value, f64)>>>;

/// The output receiver answers after this many milliseconds (the notification is recorded on arrival): a
/// slow destination keeps the delivery of a result in flight.
static OUTPUT_ANSWER_DELAY_MS: std::sync::atomic::AtomicU64 = std::sync::atomic::AtomicU64::new(0);

async fn output(State((outs, t0)): State<(Outs, Instant)>, uri: Uri, body: Bytes) {
    let v: Value = serde_json::from_slice(&body).unwrap_or(json!({"undecodable": body.len()}));
    outs.lock().unwrap().push((uri.path().to_string(), v, t0.elapsed().as_secs_f64()));
    let d = OUTPUT_ANSWER_DELAY_MS.load(std::sync::atomic::Ordering::Relaxed);
    if d > 0 {
        tokio::time::sleep(Duration::from_millis(d)).await;
    }
}

async fn start_servers(n: usize) -> Vec<Url> {
    let mut urls = vec![];
    for _ in 0..n {
        let opts = ServerOpts { concurrency: 4, tmp_dir: None, jwt_conf: None, cancel: None };
        let mut server = Server::new_with_opts("127.0.0.1:0".parse().unwrap(), opts);
        let addr = server.bind_socket().await.expect("bind");
        urls.push(Url::parse(&format!("http://{addr}")).unwrap());
        tokio::spawn(async move {
            let _ = server.start().await;
        });
    }
    tokio::time::sleep(Duration::from_millis(100)).await;
    urls
}

fn policy(id: Uuid, parts: &[Url], program: &str, leader: usize, party: usize, input: u64, out: &Url) -> Value {
    json!({
        "computation_id": id.to_string(),
        "participants": parts.iter().map(|u| u.to_string()).collect::<Vec<_>>(),
        "program": program,
        "leader": leader,
        "party": party,
        "input": {"NumUnsigned": [input, "U8"]},
        "output": format!("{}p{}/{}", out, party, id),
        "constants": {},
    })
}

const KINDS: &[&str] = &[
    "dup-schedule", "ill-typed-schedule", "run", "run-unknown-id", "consts-unknown-sender", "consts-unknown-id", "validate-dup",
    "msg-out-of-range", "msg-own-index", "msg-unknown-id", "msg-own-index-burst",
];
const MOMENTS: &[i64] = &[-1, 0, 0, 1, 2, 4, 8, 15, 30, 60, 150];

#[tokio::main(flavor = "multi_thread", worker_threads = 8)]
async fn main() {
    let mut args: Vec<String> = std::env::args().collect();
    let mode = if args.get(1).map(|m| m.starts_with('c')).unwrap_or(false) { args.remove(1) } else { "c14".to_string() };
    let seed: u64 = args.get(1).and_then(|s| s.parse().ok()).unwrap_or(1);
    let n_sc: usize = args.get(2).and_then(|s| s.parse().ok()).unwrap_or(24);
    match mode.as_str() {
        "c15" => return c15_main(seed, n_sc).await,
        "c17" => return c17_main(seed, n_sc).await,
        _ => {}
    }
    let t0 = Instant::now();
    let outs: Outs = Arc::new(Mutex::new(vec![]));
    let listener = tokio::net::TcpListener::bind("127.0.0.1:0").await.expect("bind output");
    let out_url = Url::parse(&format!("http://{}/output/", listener.local_addr().unwrap())).unwrap();
    let app = Router::new().fallback(post(output)).with_state((outs.clone(), t0));
    tokio::spawn(async move {
        let _ = axum::serve(listener, app).await;
    });
    let parts = start_servers(2).await;
    let client = reqwest::Client::builder().timeout(Duration::from_secs(90)).build().unwrap();
    let program = "pub fn main(a: u8, b: u8) -> u8 { a ^ b }";
    for k in 0..n_sc {
        let mut x = (k as u64).wrapping_add(seed.wrapping_mul(0xd1b54a32d192ed03)).wrapping_add(0x9e3779b97f4a7c15);
        x = (x ^ (x >> 30)).wrapping_mul(0xbf58476d1ce4e5b9);
        x = (x ^ (x >> 27)).wrapping_mul(0x94d049bb133111eb);
        x ^= x >> 31;
        let kind = KINDS[(k + seed as usize) % KINDS.len()];
        let moment = MOMENTS[(k / KINDS.len() + (x >> 20) as usize) % MOMENTS.len()];
        let leader = (x >> 8) as usize % 2;
        let target = (x >> 12) as usize % 2;
        let inputs = [(x >> 32) & 0xff, (x >> 40) & 0xff];
        let id = Uuid::from_u128(((seed as u128) << 64) | (k as u128) | (0x14u128 << 120));
        let pols: Vec<Value> = (0..2).map(|p| policy(id, &parts, program, leader, p, inputs[p], &out_url)).collect();
        let stray = {
            let (client, parts, pols) = (client.clone(), parts.clone(), pols.clone());
            async move {
                let base = &parts[target];
                let other_id = Uuid::from_u128(0xdead_0000_0000_0000u128 | k as u128);
                let mut statuses: Vec<Value> = vec![];
                let n_req = if kind == "msg-own-index-burst" { 12 } else { 1 };
                let mut futs = vec![];
                for _ in 0..n_req {
                    let req = match kind {
                        "dup-schedule" => client.post(base.join("schedule").unwrap()).json(&pols[target]),
                        "ill-typed-schedule" => {
                            let mut p = pols[target].clone();
                            p["program"] = json!("pub fn main(a: u8, b: u8) -> u8 { a ^ }");
                            client.post(base.join("schedule").unwrap()).json(&p)
                        }
                        "run" => client.post(base.join("run").unwrap()).json(&json!({"computation_id": id.to_string()})),
                        "run-unknown-id" => client.post(base.join("run").unwrap()).json(&json!({"computation_id": other_id.to_string()})),
                        "consts-unknown-sender" => client.post(base.join("consts").unwrap()).json(&json!({"from": 7, "computation_id": id.to_string(), "consts": {}})),
                        "consts-unknown-id" => client.post(base.join("consts").unwrap()).json(&json!({"from": 1 - target, "computation_id": other_id.to_string(), "consts": {}})),
                        "validate-dup" => client.post(base.join("validate").unwrap()).json(&json!({"computation_id": id.to_string(), "program_hash": "0000", "leader": leader})),
                        "msg-out-of-range" => client.post(base.join(&format!("msg/{id}/9")).unwrap()).body(vec![1u8, 2, 3]),
                        "msg-unknown-id" => client.post(base.join(&format!("msg/{other_id}/0")).unwrap()).body(vec![1u8, 2, 3]),
                        _ => client.post(base.join(&format!("msg/{id}/{target}")).unwrap()).body(vec![9u8, 9, 9]),
                    };
                    futs.push(tokio::spawn(async move { tokio::time::timeout(Duration::from_secs(3), req.send()).await }));
                }
                for f in futs {
                    statuses.push(match f.await {
                        Ok(Ok(Ok(r))) => json!(r.status().as_u16()),
                        Ok(Ok(Err(e))) => json!(format!("client error: {e}")),
                        Ok(Err(_)) => json!("no answer within 3 s"),
                        Err(_) => json!("task failed"),
                    });
                }
                statuses
            }
        };
        let t_start = t0.elapsed().as_secs_f64();
        let sched = |p: usize| {
            let (client, url, pol) = (client.clone(), parts[p].join("schedule").unwrap(), pols[p].clone());
            tokio::spawn(async move {
                match client.post(url).json(&pol).send().await {
                    Ok(r) => json!(r.status().as_u16()),
                    Err(e) => json!(format!("client error: {e}")),
                }
            })
        };
        let mut stray_res = None;
        if moment < 0 {
            stray_res = Some(stray.await);
            let (a, b) = (sched(0), sched(1));
            let sched_res = vec![a.await.unwrap_or(json!("?")), b.await.unwrap_or(json!("?"))];
            finish(k, seed, kind, moment, leader, target, &inputs, id, &outs, t_start, t0, sched_res, stray_res, true).await;
            continue;
        }
        let (a, b) = (sched(0), sched(1));
        tokio::time::sleep(Duration::from_millis(moment as u64)).await;
        let own_schedule_done = if target == 0 { a.is_finished() } else { b.is_finished() };
        if stray_res.is_none() {
            stray_res = Some(stray.await);
        }
        let sched_res = vec![a.await.unwrap_or(json!("?")), b.await.unwrap_or(json!("?"))];
        finish(k, seed, kind, moment, leader, target, &inputs, id, &outs, t_start, t0, sched_res, stray_res, own_schedule_done).await;
    }
    // both servers must still answer
    let mut health = vec![];
    for p in &parts {
        health.push(match client.get(p.join("health").unwrap()).send().await { Ok(r) => json!(r.status().as_u16()), Err(e) => json!(format!("{e}")) });
    }
    println!("{}", json!({"final_health": health, "wall_s": t0.elapsed().as_secs_f64()}));
}

#[allow(clippy::too_many_arguments)]
async fn finish(k: usize, seed: u64, kind: &str, moment: i64, leader: usize, target: usize, inputs: &[u64; 2], id: Uuid, outs: &Outs, t_start: f64, t0: Instant, sched: Vec<Value>, stray: Option<Vec<Value>>, own_schedule_done_before_stray: bool) {
    // wait for both results (generous wall-clock watchdog; its firing is inconclusive, not a verdict)
    // scenarios whose stray request may legitimately change the outcome are not judged on it: short wait
    let judged = moment >= 0 && kind != "validate-dup" && kind != "run";
    let deadline = Instant::now() + Duration::from_secs(if judged { 60 } else { 3 });
    let mine = |o: &Vec<(String, Value, f64)>| -> Vec<(String, Value, f64)> { o.iter().filter(|(p, _, _)| p.contains(&id.to_string())).cloned().collect() };
    loop {
        let got = mine(&outs.lock().unwrap());
        if got.len() >= 2 || Instant::now() > deadline {
            break;
        }
        tokio::time::sleep(Duration::from_millis(20)).await;
    }
    // a little longer, to see surplus notifications
    tokio::time::sleep(Duration::from_millis(50)).await;
    let got = mine(&outs.lock().unwrap());
    println!(
        "{}",
        json!({"scenario": k, "seed": seed, "kind": kind, "moment_ms": moment, "leader": leader, "target": target, "inputs": inputs, "expected": inputs[0] ^ inputs[1],
            "schedule_status": sched, "stray_status": stray, "own_schedule_done_before_stray": own_schedule_done_before_stray, "outcome_judged": judged,
            "outputs": got.iter().map(|(p, v, t)| json!({"path": p, "body": v, "t": t})).collect::<Vec<_>>(), "t_start": t_start, "t_end": t0.elapsed().as_secs_f64()})
    );
}


fn mix(k: usize, seed: u64) -> u64 {
    let mut x = (k as u64).wrapping_add(seed.wrapping_mul(0xd1b54a32d192ed03)).wrapping_add(0x9e3779b97f4a7c15);
    x = (x ^ (x >> 30)).wrapping_mul(0xbf58476d1ce4e5b9);
    x = (x ^ (x >> 27)).wrapping_mul(0x94d049bb133111eb);
    x ^ (x >> 31)
}

async fn output_receiver() -> (Url, Outs, Instant) {
    let t0 = Instant::now();
    let outs: Outs = Arc::new(Mutex::new(vec![]));
    let listener = tokio::net::TcpListener::bind("127.0.0.1:0").await.expect("bind output");
    let out_url = Url::parse(&format!("http://{}/output/", listener.local_addr().unwrap())).unwrap();
    let app = Router::new().fallback(post(output)).with_state((outs.clone(), t0));
    tokio::spawn(async move {
        let _ = axum::serve(listener, app).await;
    });
    (out_url, outs, t0)
}

async fn start_server(opts: ServerOpts) -> Url {
    let mut server = Server::new_with_opts("127.0.0.1:0".parse().unwrap(), opts);
    let addr = server.bind_socket().await.expect("bind");
    tokio::spawn(async move {
        let _ = server.start().await;
    });
    Url::parse(&format!("http://{addr}")).unwrap()
}

/// C15 over HTTP: `Cancel::cancel()` (api.rs cancel_all / server.rs) on a server whose policies are in
/// arbitrary states; every scheduled policy of that server with a destination gets exactly one
/// notification and nothing after cancel() returned.
async fn c15_main(seed: u64, n_sc: usize) {
    let (out_url, outs, t0) = output_receiver().await;
    let client = reqwest::Client::builder().timeout(Duration::from_secs(60)).build().unwrap();
    let program = "pub fn main(a: u8, b: u8) -> u8 { a ^ b }";
    for k in 0..n_sc {
        let x = mix(k, seed);
        let cancel = polytune_http_server::Cancel::new();
        let a = start_server(ServerOpts { concurrency: 1 + (x as usize >> 3) % 2, tmp_dir: None, jwt_conf: None, cancel: Some(cancel.clone()) }).await;
        let b = start_server(ServerOpts { concurrency: 2, tmp_dir: None, jwt_conf: None, cancel: None }).await;
        tokio::time::sleep(Duration::from_millis(60)).await;
        let parts = vec![a.clone(), b.clone()];
        let m = 1 + (x as usize >> 8) % 3;
        let delay_ms = if (x >> 40) & 1 == 0 { [0u64, 0, 1, 2, 4, 8, 15, 30][(x as usize >> 12) % 8] } else { (x >> 12) % 260 };
        let answer_delay = [0u64, 0, 25, 80, 200][(x as usize >> 44) % 5];
        OUTPUT_ANSWER_DELAY_MS.store(answer_delay, std::sync::atomic::Ordering::Relaxed);
        let mut ids = vec![];
        let mut sched = vec![];
        for j in 0..m {
            let id = Uuid::from_u128(((seed as u128) << 64) | ((k as u128) << 8) | j as u128 | (0x15u128 << 120));
            let leader = (x as usize >> (16 + j)) % 2;
            let inputs = [(x >> (20 + 8 * j)) & 0xff, (x >> (28 + 8 * j)) & 0xff];
            ids.push((id, leader, inputs));
            for p in 0..2 {
                let pol = policy(id, &parts, program, leader, p, inputs[p], &out_url);
                let (client, url) = (client.clone(), parts[p].join("schedule").unwrap());
                sched.push(tokio::spawn(async move {
                    match client.post(url).json(&pol).send().await {
                        Ok(r) => r.status().as_u16() as i64,
                        Err(_) => -1,
                    }
                }));
            }
        }
        // cancel once every schedule call has been answered (the policies are then in some state between
        // Validated and finished), after an additional delay
        // the schedule calls at the cancelled server are always answered first (a policy scheduled after the
        // cancellation is outside the property); in odd scenarios the calls at the other server may still be
        // pending
        let mut sched_status = vec![];
        let mut a_statuses = vec![];
        let mut later = vec![];
        for (i, h) in sched.into_iter().enumerate() {
            if i % 2 == 0 || k % 2 == 0 {
                let st = h.await.unwrap_or(-2);
                sched_status.push(st);
                if i % 2 == 0 {
                    a_statuses.push(st);
                }
            } else {
                later.push(h);
            }
        }
        tokio::time::sleep(Duration::from_millis(delay_ms)).await;
        let t_cancel_call = t0.elapsed().as_secs_f64();
        let returned = tokio::time::timeout(Duration::from_secs(30), cancel.cancel()).await.is_ok();
        let t_cancel_ret = t0.elapsed().as_secs_f64();
        for h in later {
            let _ = tokio::time::timeout(Duration::from_secs(5), h).await;
        }
        tokio::time::sleep(Duration::from_millis(400 + answer_delay)).await;
        let got = outs.lock().unwrap().clone();
        let per_comp: Vec<Value> = ids.iter().enumerate().map(|(j, (id, leader, inputs))| {
            let a_status = a_statuses.get(j).copied().unwrap_or(-9);
            let mine: Vec<Value> = got.iter().filter(|(p, _, _)| p.contains(&id.to_string()) && p.contains("/p0/")).map(|(_, v, t)| json!({"type": v["type"], "t": t, "ok": v["type"] == "success" && v["details"]["NumUnsigned"][0].as_u64() == Some(inputs[0] ^ inputs[1])})).collect();
            json!({"id": id.to_string(), "leader": leader, "schedule_status_at_cancelled_server": a_status, "notifications_at_cancelled_server": mine})
        }).collect();
        println!("{}", json!({"c15_scenario": k, "seed": seed, "computations": m, "delay_ms": delay_ms, "destination_answers_after_ms": answer_delay, "schedule_status": sched_status, "cancel_returned": returned, "t_cancel_call": t_cancel_call, "t_cancel_return": t_cancel_ret, "per_computation": per_comp}));
    }
    println!("{}", json!({"c15_done": n_sc, "wall_s": t0.elapsed().as_secs_f64()}));
}

#[derive(Clone)]
struct Proxy {
    target: Url,
    client: reqwest::Client,
    log: Arc<Mutex<Vec<(String, f64)>>>,
    t0: Instant,
    /// (path prefix, occurrence, status) answered with that status instead of being forwarded
    fail: Arc<Mutex<Option<(String, usize, u16)>>>,
    seen: Arc<Mutex<std::collections::HashMap<String, usize>>>,
    /// computation id the failure was applied to
    failed_comp: Arc<Mutex<Option<String>>>,
    /// `run` requests are held until this many have arrived (0 = no barrier); (target, arrived)
    barrier: Arc<Mutex<(usize, usize)>>,
}

async fn proxy_handler(State(p): State<Proxy>, uri: Uri, headers: axum::http::HeaderMap, body: Bytes) -> (axum::http::StatusCode, Bytes) {
    let path = uri.path().to_string();
    // the computation id is in the path (msg) or in the JSON body
    let comp = serde_json::from_slice::<Value>(&body).ok().and_then(|v| v["computation_id"].as_str().map(|s| s.to_string())).unwrap_or_default();
    p.log.lock().unwrap().push((format!("{path} {comp}"), p.t0.elapsed().as_secs_f64()));
    let kind = path.trim_start_matches('/').split('/').next().unwrap_or("").to_string();
    let occ = {
        let mut s = p.seen.lock().unwrap();
        let e = s.entry(kind.clone()).or_insert(0);
        *e += 1;
        *e - 1
    };
    let fail_now = { let f = p.fail.lock().unwrap(); match &*f { Some((k, o, st)) if *k == kind && *o == occ => Some(*st), _ => None } };
    if let Some(st) = fail_now {
        *p.failed_comp.lock().unwrap() = Some(comp.clone());
        return (axum::http::StatusCode::from_u16(st).unwrap(), Bytes::from_static(b"injected failure"));
    }
    if kind == "run" {
        let target = {
            let mut b = p.barrier.lock().unwrap();
            if b.0 > 0 { b.1 += 1; }
            b.0
        };
        if target > 0 {
            let until = Instant::now() + Duration::from_secs(20);
            while Instant::now() < until && p.barrier.lock().unwrap().1 < target {
                tokio::time::sleep(Duration::from_millis(5)).await;
            }
        }
    }
    let mut req = p.client.post(p.target.join(path.trim_start_matches('/')).unwrap()).body(body.to_vec());
    if let Some(ct) = headers.get("content-type") {
        req = req.header("content-type", ct.as_bytes());
    }
    match req.send().await {
        Ok(r) => {
            let st = axum::http::StatusCode::from_u16(r.status().as_u16()).unwrap_or(axum::http::StatusCode::BAD_GATEWAY);
            (st, r.bytes().await.unwrap_or_default())
        }
        Err(_) => (axum::http::StatusCode::BAD_GATEWAY, Bytes::new()),
    }
}

/// C17 over HTTP: the concurrency budget of a server (ServerOpts::concurrency, api.rs) observed from
/// outside: a logging proxy in front of the follower sees when the leader sends `run` for a computation,
/// the output receiver sees when the leader delivers its result; the intervals [run seen .. result seen]
/// lie inside the intervals during which the leader holds a permit.
async fn c17_main(seed: u64, n_sc: usize) {
    let (out_url, outs, t0) = output_receiver().await;
    let client = reqwest::Client::builder().timeout(Duration::from_secs(120)).build().unwrap();
    let program = "const X: u8 = PARTY_0::X;\npub fn main(a: u8, b: u8) -> u8 { (a ^ b) & X }";
    for k in 0..n_sc {
        let x = mix(k, seed);
        let conc = 1 + (x as usize >> 3) % 2;
        let a = start_server(ServerOpts { concurrency: conc, tmp_dir: None, jwt_conf: None, cancel: None }).await;
        let b = start_server(ServerOpts { concurrency: 4, tmp_dir: None, jwt_conf: None, cancel: None }).await;
        // logging / failing proxy in front of b
        // failing request: every (kind, status) pair and "none" in turn (13 combinations; the three
        // processes of the quick tier use consecutive seeds and together cover all of them)
        let combo = (k + 5 * seed as usize) % 13;
        let fail_kind = if combo == 12 { "none" } else { ["run", "consts", "validate"][combo % 3] };
        let fail_occ = (x as usize >> 10) % 3;
        let fail_status = [400u16, 404, 500, 503][(combo / 3) % 4];
        let proxy = Proxy { target: b.clone(), client: client.clone(), log: Arc::new(Mutex::new(vec![])), t0, fail: Arc::new(Mutex::new(if fail_kind == "none" { None } else { Some((fail_kind.to_string(), fail_occ, fail_status)) })), seen: Default::default(), failed_comp: Default::default(), barrier: Default::default() };
        let listener = tokio::net::TcpListener::bind("127.0.0.1:0").await.expect("bind proxy");
        let purl = Url::parse(&format!("http://{}", listener.local_addr().unwrap())).unwrap();
        let app = Router::new().fallback(post(proxy_handler)).with_state(proxy.clone());
        tokio::spawn(async move {
            let _ = axum::serve(listener, app).await;
        });
        tokio::time::sleep(Duration::from_millis(60)).await;
        let parts = vec![a.clone(), purl.clone()];
        let m = 3 + (x as usize >> 14) % 3;
        let with_url = (x >> 20) & 1 == 0;
        let mut ids = vec![];
        let mut sched = vec![];
        for j in 0..m {
            let id = Uuid::from_u128(((seed as u128) << 64) | ((k as u128) << 8) | j as u128 | (0x17u128 << 120));
            let inputs = [(x >> (22 + 6 * j)) & 0xff, (x >> (25 + 6 * j)) & 0xff];
            ids.push((id, inputs));
            for p in 0..2 {
                let mut pol = policy(id, &parts, program, 0, p, inputs[p], &out_url);
                if p == 0 {
                    pol["constants"] = json!({"X": {"NumUnsigned": [0x7f, "U8"]}});
                    if !with_url { pol["output"] = Value::Null; }
                }
                let target = if p == 0 { a.clone() } else { b.clone() };
                let (client, url) = (client.clone(), target.join("schedule").unwrap());
                sched.push(tokio::spawn(async move {
                    match client.post(url).json(&pol).send().await {
                        Ok(r) => r.status().as_u16() as i64,
                        Err(_) => -1,
                    }
                }));
            }
        }
        // a follower whose leader never validates (injected validate failure) answers its schedule call only
        // when the HTTP client gives up: not waited for
        let mut sched_status = vec![];
        for h in sched {
            sched_status.push(match tokio::time::timeout(Duration::from_secs(5), h).await {
                Ok(r) => r.unwrap_or(-2),
                Err(_) => -3,
            });
        }
        // wait until every computation has produced its follower-side output (party 1 always has a
        // destination) or an error, at most 60 s
        let deadline = Instant::now() + Duration::from_secs(60);
        let mut all_ended = true;
        loop {
            let got = outs.lock().unwrap().clone();
            // a 5xx answer is retried by the server's HTTP client (exponential back-off, first retry after
            // about a second): that computation completes like the others and is waited for
            let failed = if fail_status < 500 { proxy.failed_comp.lock().unwrap().clone() } else { None };
            let done = ids.iter().filter(|(id, _)| Some(id.to_string()) == failed || got.iter().any(|(p, _, _)| p.contains(&id.to_string()) && p.contains("/p1/"))).count();
            if done == m {
                break;
            }
            if Instant::now() > deadline {
                all_ended = false;
                break;
            }
            tokio::time::sleep(Duration::from_millis(25)).await;
        }
        tokio::time::sleep(Duration::from_millis(300)).await;
        // control: is the whole budget of the leader available again? `conc` more computations led by it, no
        // failure injected; the proxy holds their run requests until `conc` of them have arrived, which needs
        // `conc` permits at the same time
        *proxy.fail.lock().unwrap() = None;
        *proxy.barrier.lock().unwrap() = (conc, 0);
        let mut cids = vec![];
        let mut hs = vec![];
        for c in 0..conc {
            let cid = Uuid::from_u128(((seed as u128) << 64) | ((k as u128) << 8) | (0xf0 + c as u128) | (0x17u128 << 120));
            cids.push(cid);
            for p in 0..2 {
                let mut pol = policy(cid, &parts, program, 0, p, 5 + p as u64, &out_url);
                if p == 0 { pol["constants"] = json!({"X": {"NumUnsigned": [0xff, "U8"]}}); }
                let target = if p == 0 { a.clone() } else { b.clone() };
                let (client, url) = (client.clone(), target.join("schedule").unwrap());
                hs.push(tokio::spawn(async move { client.post(url).json(&pol).send().await.map(|r| r.status().as_u16()).unwrap_or(0) }));
            }
        }
        for h in hs { let _ = h.await; }
        let cdeadline = Instant::now() + Duration::from_secs(40);
        let mut control_result = json!(null);
        while Instant::now() < cdeadline {
            let got = outs.lock().unwrap().clone();
            let okc = cids.iter().filter(|cid| got.iter().any(|(p, v, _)| p.contains(&cid.to_string()) && p.contains("/p0/") && v["type"] == "success")).count();
            if okc == conc {
                control_result = json!({"type": "success", "computations": conc});
                break;
            }
            tokio::time::sleep(Duration::from_millis(25)).await;
        }
        let runs_held_together = proxy.barrier.lock().unwrap().1;
        *proxy.barrier.lock().unwrap() = (0, 0);
        // second control with the roles swapped (b leads, a follows through a direct URL): shows that a is
        // responsive even if its own permit should be gone
        let rid = Uuid::from_u128(((seed as u128) << 64) | ((k as u128) << 8) | 0xfe | (0x17u128 << 120));
        let direct = vec![a.clone(), b.clone()];
        let mut hs = vec![];
        for p in 0..2 {
            let pol = policy(rid, &direct, "pub fn main(a: u8, b: u8) -> u8 { a ^ b }", 1, p, 9 + p as u64, &out_url);
            let (client, url) = (client.clone(), direct[p].join("schedule").unwrap());
            hs.push(tokio::spawn(async move { client.post(url).json(&pol).send().await.map(|r| r.status().as_u16()).unwrap_or(0) }));
        }
        for h in hs { let _ = h.await; }
        let rdeadline = Instant::now() + Duration::from_secs(40);
        let mut reverse_result = json!(null);
        while Instant::now() < rdeadline {
            if let Some((_, v, t)) = outs.lock().unwrap().iter().find(|(p, _, _)| p.contains(&rid.to_string()) && p.contains("/p0/")) {
                reverse_result = json!({"type": v["type"], "t": t});
                break;
            }
            tokio::time::sleep(Duration::from_millis(25)).await;
        }
        let got = outs.lock().unwrap().clone();
        let log = proxy.log.lock().unwrap().clone();
        let per: Vec<Value> = ids.iter().map(|(id, inputs)| {
            let run_t = log.iter().find(|(l, _)| l.starts_with("/run ") && l.contains(&id.to_string())).map(|(_, t)| *t);
            let lead_out: Vec<Value> = got.iter().filter(|(p, _, _)| p.contains(&id.to_string()) && p.contains("/p0/")).map(|(_, v, t)| json!({"type": v["type"], "t": t, "ok": v["type"] == "success" && v["details"]["NumUnsigned"][0].as_u64() == Some((inputs[0] ^ inputs[1]) & 0x7f)})).collect();
            let foll_out: Vec<Value> = got.iter().filter(|(p, _, _)| p.contains(&id.to_string()) && p.contains("/p1/")).map(|(_, v, t)| json!({"type": v["type"], "t": t})).collect();
            json!({"id": id.to_string(), "run_seen_at_proxy": run_t, "leader_notifications": lead_out, "follower_notifications": foll_out})
        }).collect();
        println!("{}", json!({"c17_scenario": k, "seed": seed, "concurrency": conc, "computations": m, "leader_has_destination": with_url, "failed_request": if fail_kind == "none" { Value::Null } else { json!({"kind": fail_kind, "occurrence": fail_occ, "status": fail_status, "computation": proxy.failed_comp.lock().unwrap().clone()}) }, "all_ended_within_60s": all_ended, "control_runs_held_together_at_proxy": runs_held_together, "schedule_status": sched_status, "per_computation": per, "control_led_by_same_server": control_result, "control_led_by_the_other_server": reverse_result}));
    }
    println!("{}", json!({"c17_done": n_sc, "wall_s": t0.elapsed().as_secs_f64()}));
}
