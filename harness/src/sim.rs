//! Deterministic single-threaded executor + scheduler-owned network for `polytune::mpc`.
//!
//! The real engine futures are polled on the calling thread. The network (`Net`) is owned by the
//! simulator: it sees every message, may rewrite it (adversary), decides when a buffered message
//! becomes visible to the receiver and knows exactly when nothing can make progress any more.
use std::collections::{HashMap, VecDeque};
use std::future::Future;
use std::panic::{AssertUnwindSafe, catch_unwind};
use std::pin::Pin;
use std::sync::atomic::{AtomicBool, Ordering};
use std::sync::{Arc, Mutex, MutexGuard};
use std::task::{Context, Poll, Wake, Waker};

use polytune::channel::Channel;
use rand::{Rng, SeedableRng};
use rand_chacha::ChaCha8Rng;

// ------------------------------------------------------------------------------------------------
// events
// ------------------------------------------------------------------------------------------------

#[derive(Clone, Copy, Debug, PartialEq, Eq)]
pub enum EvKind {
    SendCall,
    SendDone,
    RecvCall,
    RecvDone,
    Deliver,
    Finish,
}

#[derive(Clone, Debug)]
pub struct Ev {
    pub t: u64,
    pub kind: EvKind,
    /// acting party (sender for Send*, receiver for Recv*, finished party for Finish)
    pub party: usize,
    pub peer: usize,
    pub label: u16,
    pub len: usize,
    /// index into `Net::msgs` (usize::MAX if none)
    pub msg: usize,
}

#[derive(Clone, Debug)]
pub struct MsgRec {
    pub id: usize,
    pub from: usize,
    pub to: usize,
    pub label: u16,
    /// occurrence index among messages with the same (from, to, label)
    pub k: usize,
    /// index among all messages sent by `from`
    pub idx_from: usize,
    /// bytes the engine handed to the channel
    pub sent: Vec<u8>,
    /// bytes put on the wire after the adversary (None = dropped)
    pub wire: Option<Vec<u8>>,
    pub mutated: bool,
}

#[derive(Debug, Clone, PartialEq, Eq)]
pub enum ChanErr {
    Closed,
}

/// What the adversary does with one message.
#[derive(Default)]
pub struct Action {
    pub replace: Option<Vec<u8>>,
    pub drop: bool,
    pub crash_sender_after: bool,
    /// do not send yet: ask again after more traffic has happened (rushing adversary)
    pub hold: bool,
}

pub struct MsgMeta<'a> {
    pub from: usize,
    pub to: usize,
    pub label: &'a str,
    pub k: usize,
    pub idx_from: usize,
    /// everything sent so far (a corrupted party may use what was addressed to it)
    pub msgs: &'a [MsgRec],
    pub labels: &'a [String],
    /// how often this message has been held back already
    pub held: u32,
}

pub trait Adversary: Send {
    fn on_send(&mut self, meta: &MsgMeta, data: &[u8]) -> Action;
}

#[derive(Clone, Copy, Debug, PartialEq, Eq)]
pub enum DeadSend {
    /// send to a terminated party fails
    Err,
    /// send to a terminated party is silently dropped
    Drop,
}

pub struct Net {
    pub n: usize,
    pub cap: Option<usize>,
    pub dead_send: DeadSend,
    inflight: Vec<Vec<VecDeque<usize>>>,
    visible: Vec<Vec<VecDeque<usize>>>,
    pub closed: Vec<bool>,
    pub crashed: Vec<bool>,
    crash_req: Vec<bool>,
    send_wakers: Vec<Vec<Option<Waker>>>,
    recv_wakers: Vec<Vec<Option<Waker>>>,
    pub labels: Vec<String>,
    label_ix: HashMap<String, u16>,
    pub log: Vec<Ev>,
    pub msgs: Vec<MsgRec>,
    clock: u64,
    occ: HashMap<(usize, usize, u16), usize>,
    sent_by: Vec<usize>,
    out_send: Vec<Vec<u32>>,
    out_recv: Vec<Vec<u32>>,
    pub max_out_send: u32,
    pub max_out_recv: u32,
    /// (party, peer, "send"/"recv", labels involved)
    pub outstanding_violation: Option<String>,
    pub adversary: Option<Box<dyn Adversary>>,
    pub keep_bytes: bool,
    pub ilv_hash: u64,
    pub progress: u64,
    /// eager delivery: a sent message is visible at once
    pub eager: bool,
    /// a send never completes in its first poll (models a transport whose send takes time, so that
    /// overlapping sends to one peer are observable whatever the capacity)
    pub send_yields: bool,
    /// wall-clock perturbation: after a completed send of at least .0 bytes the sending party stalls
    /// for .1 microseconds of real time (nothing in the protocol may depend on the clock)
    pub stall_after_send: Option<(usize, u64)>,
    held_wakers: Vec<Waker>,
}

fn fnv(h: &mut u64, x: u64) {
    *h ^= x;
    *h = h.wrapping_mul(0x100000001b3);
}

impl Net {
    pub fn new(n: usize, cap: Option<usize>) -> Self {
        Net {
            n,
            cap,
            dead_send: DeadSend::Err,
            inflight: vec![vec![VecDeque::new(); n]; n],
            visible: vec![vec![VecDeque::new(); n]; n],
            closed: vec![false; n],
            crashed: vec![false; n],
            crash_req: vec![false; n],
            send_wakers: vec![vec![None; n]; n],
            recv_wakers: vec![vec![None; n]; n],
            labels: vec![],
            label_ix: HashMap::new(),
            log: vec![],
            msgs: vec![],
            clock: 0,
            occ: HashMap::new(),
            sent_by: vec![0; n],
            out_send: vec![vec![0; n]; n],
            out_recv: vec![vec![0; n]; n],
            max_out_send: 0,
            max_out_recv: 0,
            outstanding_violation: None,
            adversary: None,
            keep_bytes: true,
            ilv_hash: 0xcbf29ce484222325,
            progress: 0,
            eager: false,
            send_yields: false,
            stall_after_send: None,
            held_wakers: vec![],
        }
    }

    fn label_id(&mut self, l: &str) -> u16 {
        if let Some(i) = self.label_ix.get(l) {
            return *i;
        }
        let i = self.labels.len() as u16;
        self.labels.push(l.to_string());
        self.label_ix.insert(l.to_string(), i);
        i
    }

    pub fn label(&self, id: u16) -> &str {
        self.labels.get(id as usize).map(|s| s.as_str()).unwrap_or("?")
    }

    fn ev(&mut self, kind: EvKind, party: usize, peer: usize, label: u16, len: usize, msg: usize) {
        self.clock += 1;
        self.progress += 1;
        fnv(&mut self.ilv_hash, kind as u64 + 7 * party as u64 + 61 * peer as u64 + 977 * label as u64);
        self.log.push(Ev { t: self.clock, kind, party, peer, label, len, msg });
    }

    fn has_room(&self, a: usize, b: usize) -> bool {
        match self.cap {
            None => true,
            Some(c) => self.inflight[a][b].len() + self.visible[a][b].len() < c,
        }
    }

    /// pairs (a,b) with a deliverable message
    pub fn deliverable(&self) -> Vec<(usize, usize)> {
        let mut v = vec![];
        for a in 0..self.n {
            for b in 0..self.n {
                if !self.inflight[a][b].is_empty() {
                    v.push((a, b));
                }
            }
        }
        v
    }

    pub fn deliver(&mut self, a: usize, b: usize) {
        if let Some(id) = self.inflight[a][b].pop_front() {
            let (label, len) = {
                let m = &self.msgs[id];
                (m.label, m.wire.as_ref().map(|w| w.len()).unwrap_or(0))
            };
            self.visible[a][b].push_back(id);
            self.ev(EvKind::Deliver, a, b, label, len, id);
            if let Some(w) = self.recv_wakers[b][a].take() {
                w.wake();
            }
        }
    }

    pub fn close(&mut self, p: usize) {
        self.closed[p] = true;
        for w in std::mem::take(&mut self.held_wakers) {
            w.wake();
        }
        for q in 0..self.n {
            if let Some(w) = self.recv_wakers[q][p].take() {
                w.wake();
            }
            if let Some(w) = self.send_wakers[q][p].take() {
                w.wake();
            }
        }
    }

    pub fn take_crash_requests(&mut self) -> Vec<usize> {
        let mut v = vec![];
        for p in 0..self.n {
            if self.crash_req[p] {
                self.crash_req[p] = false;
                v.push(p);
            }
        }
        v
    }

    pub fn finish_event(&mut self, p: usize, code: usize) {
        self.ev(EvKind::Finish, p, p, u16::MAX, code, usize::MAX);
    }

    /// messages still buffered (in flight or visible) for receiver b from a
    pub fn pending_for(&self, a: usize, b: usize) -> usize {
        self.inflight[a][b].len() + self.visible[a][b].len()
    }
}

#[derive(Clone)]
pub struct SimChan {
    pub net: Arc<Mutex<Net>>,
    pub me: usize,
}

fn lock(net: &Arc<Mutex<Net>>) -> MutexGuard<'_, Net> {
    net.lock().unwrap_or_else(|e| e.into_inner())
}

impl SimChan {
    pub fn new_set(n: usize, cap: Option<usize>) -> (Arc<Mutex<Net>>, Vec<SimChan>) {
        let net = Arc::new(Mutex::new(Net::new(n, cap)));
        let chans = (0..n).map(|me| SimChan { net: net.clone(), me }).collect();
        (net, chans)
    }
}

struct SendFut<'a> {
    held: u32,
    yielded: bool,
    ch: &'a SimChan,
    to: usize,
    data: Option<Vec<u8>>,
    label: String,
    label_id: u16,
    started: bool,
    done: bool,
}

impl Future for SendFut<'_> {
    type Output = Result<(), ChanErr>;
    fn poll(mut self: Pin<&mut Self>, cx: &mut Context<'_>) -> Poll<Self::Output> {
        let me = self.ch.me;
        let to = self.to;
        let mut net = lock(&self.ch.net);
        if net.crashed[me] || net.crash_req[me] {
            return Poll::Pending;
        }
        if to >= net.n || to == me {
            return Poll::Ready(Err(ChanErr::Closed));
        }
        if !self.started {
            self.started = true;
            let lid = net.label_id(&self.label);
            self.label_id = lid;
            let len = self.data.as_ref().map(|d| d.len()).unwrap_or(0);
            net.ev(EvKind::SendCall, me, to, lid, len, usize::MAX);
            net.out_send[me][to] += 1;
            let o = net.out_send[me][to];
            if o > net.max_out_send {
                net.max_out_send = o;
            }
            if o > 1 && net.outstanding_violation.is_none() {
                net.outstanding_violation =
                    Some(format!("party {me} has {o} sends outstanding to {to} (latest label '{}')", self.label));
            }
        }
        if net.send_yields && !self.yielded {
            self.yielded = true;
            cx.waker().wake_by_ref();
            return Poll::Pending;
        }
        if net.closed[to] {
            self.done = true;
            net.out_send[me][to] -= 1;
            return match net.dead_send {
                DeadSend::Err => Poll::Ready(Err(ChanErr::Closed)),
                DeadSend::Drop => Poll::Ready(Ok(())),
            };
        }
        if !net.has_room(me, to) {
            net.send_wakers[me][to] = Some(cx.waker().clone());
            return Poll::Pending;
        }
        let lid = self.label_id;
        let k = *net.occ.get(&(me, to, lid)).unwrap_or(&0);
        let idx_from = net.sent_by[me];
        let mut action = Action::default();
        if let Some(mut adv) = net.adversary.take() {
            let held = self.held;
            let empty = vec![];
            let meta = MsgMeta { from: me, to, label: &self.label, k, idx_from, msgs: &net.msgs, labels: &net.labels, held };
            action = adv.on_send(&meta, self.data.as_ref().unwrap_or(&empty));
            net.adversary = Some(adv);
        }
        if action.hold && self.held < 20_000 {
            self.held += 1;
            net.held_wakers.push(cx.waker().clone());
            return Poll::Pending;
        }
        let data = self.data.take().unwrap_or_default();
        *net.occ.entry((me, to, lid)).or_insert(0) += 1;
        net.sent_by[me] += 1;
        let id = net.msgs.len();
        let mutated = action.replace.is_some() || action.drop;
        let wire = if action.drop { None } else { Some(action.replace.unwrap_or_else(|| data.clone())) };
        let len = data.len();
        let keep = net.keep_bytes;
        net.msgs.push(MsgRec {
            id,
            from: me,
            to,
            label: lid,
            k,
            idx_from,
            sent: if keep { data } else { vec![] },
            wire: wire.clone(),
            mutated,
        });
        net.ev(EvKind::SendDone, me, to, lid, len, id);
        crate::hooks::tick_msg_clock(net.msgs.len());
        for w in std::mem::take(&mut net.held_wakers) {
            w.wake();
        }
        if wire.is_some() {
            net.inflight[me][to].push_back(id);
            if net.eager {
                net.deliver(me, to);
            }
        }
        if action.crash_sender_after {
            net.crash_req[me] = true;
        }
        net.out_send[me][to] -= 1;
        self.done = true;
        if let Some((min_len, us)) = net.stall_after_send {
            if len >= min_len {
                drop(net);
                std::thread::sleep(std::time::Duration::from_micros(us));
            }
        }
        Poll::Ready(Ok(()))
    }
}

impl Drop for SendFut<'_> {
    fn drop(&mut self) {
        if self.started && !self.done {
            let mut net = lock(&self.ch.net);
            let (me, to) = (self.ch.me, self.to);
            net.out_send[me][to] = net.out_send[me][to].saturating_sub(1);
        }
    }
}

struct RecvFut<'a> {
    ch: &'a SimChan,
    from: usize,
    label: String,
    label_id: u16,
    started: bool,
    done: bool,
}

impl Future for RecvFut<'_> {
    type Output = Result<Vec<u8>, ChanErr>;
    fn poll(mut self: Pin<&mut Self>, cx: &mut Context<'_>) -> Poll<Self::Output> {
        let me = self.ch.me;
        let from = self.from;
        let mut net = lock(&self.ch.net);
        if net.crashed[me] || net.crash_req[me] {
            return Poll::Pending;
        }
        if from >= net.n || from == me {
            return Poll::Ready(Err(ChanErr::Closed));
        }
        if !self.started {
            self.started = true;
            let lid = net.label_id(&self.label);
            self.label_id = lid;
            net.ev(EvKind::RecvCall, me, from, lid, 0, usize::MAX);
            net.out_recv[me][from] += 1;
            let o = net.out_recv[me][from];
            if o > net.max_out_recv {
                net.max_out_recv = o;
            }
            if o > 1 && net.outstanding_violation.is_none() {
                net.outstanding_violation =
                    Some(format!("party {me} has {o} receives outstanding from {from} (latest label '{}')", self.label));
            }
        }
        if let Some(id) = net.visible[from][me].pop_front() {
            let data = if net.keep_bytes { net.msgs[id].wire.clone().unwrap_or_default() } else { net.msgs[id].wire.take().unwrap_or_default() };
            let lid = self.label_id;
            net.ev(EvKind::RecvDone, me, from, lid, data.len(), id);
            net.out_recv[me][from] -= 1;
            self.done = true;
            if let Some(w) = net.send_wakers[from][me].take() {
                w.wake();
            }
            return Poll::Ready(Ok(data));
        }
        if net.closed[from] && net.inflight[from][me].is_empty() {
            net.out_recv[me][from] -= 1;
            self.done = true;
            return Poll::Ready(Err(ChanErr::Closed));
        }
        net.recv_wakers[me][from] = Some(cx.waker().clone());
        Poll::Pending
    }
}

impl Drop for RecvFut<'_> {
    fn drop(&mut self) {
        if self.started && !self.done {
            let mut net = lock(&self.ch.net);
            let (me, from) = (self.ch.me, self.from);
            net.out_recv[me][from] = net.out_recv[me][from].saturating_sub(1);
        }
    }
}

impl Channel for SimChan {
    type SendError = ChanErr;
    type RecvError = ChanErr;

    async fn send_bytes_to(&self, party: usize, data: Vec<u8>, phase: &str) -> Result<(), ChanErr> {
        SendFut { held: 0, yielded: false, ch: self, to: party, data: Some(data), label: phase.to_string(), label_id: 0, started: false, done: false }.await
    }

    async fn recv_bytes_from(&self, party: usize, phase: &str) -> Result<Vec<u8>, ChanErr> {
        RecvFut { ch: self, from: party, label: phase.to_string(), label_id: 0, started: false, done: false }.await
    }
}

// ------------------------------------------------------------------------------------------------
// panic capture
// ------------------------------------------------------------------------------------------------

thread_local! {
    static LAST_PANIC: std::cell::RefCell<Option<(String, String)>> = const { std::cell::RefCell::new(None) };
    static QUIET: std::cell::Cell<bool> = const { std::cell::Cell::new(false) };
}

pub fn install_panic_hook() {
    let default = std::panic::take_hook();
    std::panic::set_hook(Box::new(move |info| {
        let loc = info.location().map(|l| format!("{}:{}", l.file(), l.line())).unwrap_or_default();
        let msg = if let Some(s) = info.payload().downcast_ref::<&str>() {
            s.to_string()
        } else if let Some(s) = info.payload().downcast_ref::<String>() {
            s.clone()
        } else {
            "<non-string panic>".to_string()
        };
        let quiet = QUIET.with(|q| q.get());
        LAST_PANIC.with(|p| *p.borrow_mut() = Some((msg, loc)));
        if !quiet {
            default(info);
        }
    }));
}

pub fn set_quiet_panics(q: bool) {
    QUIET.with(|c| c.set(q));
}

pub fn take_last_panic() -> Option<(String, String)> {
    LAST_PANIC.with(|p| p.borrow_mut().take())
}

// ------------------------------------------------------------------------------------------------
// scheduler
// ------------------------------------------------------------------------------------------------

#[derive(Clone, Debug, PartialEq, Eq)]
pub enum SchedKind {
    /// poll parties in order, every message visible at once
    RoundRobin,
    /// uniform random over enabled actions
    Random,
    /// random priorities with `d` priority change points
    Pct(u32),
    /// party p only runs when nothing else is enabled
    StarveParty(usize),
    /// messages a->b are only delivered when nothing else is enabled
    StarveLink(usize, usize),
    /// deliveries only when no party can run
    LazyDeliver,
    /// deliveries before anything else, random party order
    EagerRandom,
}

#[derive(Clone, Debug)]
pub struct SimCfg {
    pub sched: SchedKind,
    pub seed: u64,
    pub max_steps: u64,
}

impl Default for SimCfg {
    fn default() -> Self {
        SimCfg { sched: SchedKind::RoundRobin, seed: 0, max_steps: 50_000_000 }
    }
}

#[derive(Clone, Copy, Debug, PartialEq, Eq)]
enum Act {
    Poll(usize),
    Deliver(usize, usize),
}

struct WakeFlag(AtomicBool);
impl Wake for WakeFlag {
    fn wake(self: Arc<Self>) {
        self.0.store(true, Ordering::SeqCst);
    }
    fn wake_by_ref(self: &Arc<Self>) {
        self.0.store(true, Ordering::SeqCst);
    }
}

#[derive(Debug, Clone)]
pub enum Outcome<T> {
    Done(T),
    /// (message, file:line)
    Panic(String, String),
    /// terminated by the fault plan
    Crashed,
    Unfinished,
}

impl<T> Outcome<T> {
    pub fn done(&self) -> Option<&T> {
        if let Outcome::Done(t) = self { Some(t) } else { None }
    }
}

#[derive(Debug, Clone, PartialEq, Eq)]
pub enum RunEnd {
    AllFinished,
    /// no runnable task, no deliverable message, some party unfinished
    Stuck,
    StepLimit,
    /// the stuck sweep made progress: a wake-up was lost in the harness
    HarnessError(String),
}

pub struct RunResult<T> {
    pub outcomes: Vec<Outcome<T>>,
    pub end: RunEnd,
    pub steps: u64,
    pub sched_hash: u64,
    pub ilv_hash: u64,
    /// largest single allocation request observed while polling each party
    pub max_alloc_req: Vec<usize>,
    pub polls: u64,
}

pub type PartyFut<'a, T> = Pin<Box<dyn Future<Output = T> + 'a>>;

/// Hook called around every poll (sets the current party for repo hooks / allocation accounting).
pub type PollHook<'h> = &'h mut dyn FnMut(Option<usize>);

pub fn run<'a, T>(
    net: &Arc<Mutex<Net>>,
    futs: Vec<PartyFut<'a, T>>,
    cfg: &SimCfg,
) -> RunResult<T> {
    let n = futs.len();
    let mut tasks: Vec<Option<PartyFut<'a, T>>> = futs.into_iter().map(Some).collect();
    let flags: Vec<Arc<WakeFlag>> = (0..n).map(|_| Arc::new(WakeFlag(AtomicBool::new(true)))).collect();
    let wakers: Vec<Waker> = flags.iter().map(|f| Waker::from(f.clone())).collect();
    let mut outcomes: Vec<Outcome<T>> = (0..n).map(|_| Outcome::Unfinished).collect();
    let mut rng = ChaCha8Rng::seed_from_u64(cfg.seed ^ 0x5eed_5eed);
    let mut steps = 0u64;
    let mut polls = 0u64;
    let mut sched_hash = 0xcbf29ce484222325u64;
    let mut max_alloc_req = vec![0usize; n];
    let mut rr_next = 0usize;
    // PCT state
    let mut prio: Vec<i64> = (0..n + n * n).map(|_| rng.random_range(1000..1_000_000)).collect();
    let change_points: Vec<u64> = if let SchedKind::Pct(d) = cfg.sched {
        (0..d).map(|_| rng.random_range(1..4000)).collect()
    } else {
        vec![]
    };
    {
        let mut g = lock(net);
        g.eager = matches!(cfg.sched, SchedKind::RoundRobin);
    }

    let end = loop {
        if steps >= cfg.max_steps {
            break RunEnd::StepLimit;
        }
        // enabled actions
        let mut acts: Vec<Act> = vec![];
        for p in 0..n {
            if tasks[p].is_some() && flags[p].0.load(Ordering::SeqCst) {
                acts.push(Act::Poll(p));
            }
        }
        let deliverable = lock(net).deliverable();
        for (a, b) in &deliverable {
            acts.push(Act::Deliver(*a, *b));
        }
        if acts.is_empty() {
            if tasks.iter().all(|t| t.is_none()) {
                break RunEnd::AllFinished;
            }
            // sweep: poll every unfinished task once; progress here means a lost wake-up
            let before = lock(net).progress;
            let mut progressed = false;
            for p in 0..n {
                if tasks[p].is_some() {
                    let r = poll_task(net, &mut tasks, &wakers, &flags, p, &mut outcomes, &mut max_alloc_req);
                    polls += 1;
                    if r {
                        progressed = true;
                    }
                }
            }
            let after = lock(net).progress;
            if progressed || after != before || flags.iter().enumerate().any(|(p, f)| tasks[p].is_some() && f.0.load(Ordering::SeqCst)) {
                break RunEnd::HarnessError("progress in stuck sweep (lost wake-up)".into());
            }
            break RunEnd::Stuck;
        }
        steps += 1;
        let act = match &cfg.sched {
            SchedKind::RoundRobin => {
                // eager delivery is on: only polls (deliveries happen at send time)
                let mut chosen = None;
                for d in 0..n {
                    let p = (rr_next + d) % n;
                    if acts.contains(&Act::Poll(p)) {
                        chosen = Some(Act::Poll(p));
                        rr_next = p + 1;
                        break;
                    }
                }
                chosen.unwrap_or(acts[0])
            }
            SchedKind::Random => acts[rng.random_range(0..acts.len())],
            SchedKind::EagerRandom => {
                let ds: Vec<Act> = acts.iter().copied().filter(|a| matches!(a, Act::Deliver(..))).collect();
                if !ds.is_empty() { ds[rng.random_range(0..ds.len())] } else { acts[rng.random_range(0..acts.len())] }
            }
            SchedKind::LazyDeliver => {
                let ps: Vec<Act> = acts.iter().copied().filter(|a| matches!(a, Act::Poll(..))).collect();
                if !ps.is_empty() { ps[rng.random_range(0..ps.len())] } else { acts[rng.random_range(0..acts.len())] }
            }
            SchedKind::StarveParty(v) => {
                let others: Vec<Act> = acts.iter().copied().filter(|a| *a != Act::Poll(*v)).collect();
                if !others.is_empty() { others[rng.random_range(0..others.len())] } else { acts[0] }
            }
            SchedKind::StarveLink(a, b) => {
                let others: Vec<Act> = acts.iter().copied().filter(|x| *x != Act::Deliver(*a, *b)).collect();
                if !others.is_empty() { others[rng.random_range(0..others.len())] } else { acts[0] }
            }
            SchedKind::Pct(_) => {
                if change_points.contains(&steps) {
                    // demote the currently best action
                    let best = *acts.iter().max_by_key(|a| prio[act_ix(**a, n)]).unwrap_or(&acts[0]);
                    prio[act_ix(best, n)] = -(steps as i64);
                }
                *acts.iter().max_by_key(|a| prio[act_ix(**a, n)]).unwrap_or(&acts[0])
            }
        };
        fnv(&mut sched_hash, match act { Act::Poll(p) => p as u64, Act::Deliver(a, b) => 100 + (a * n + b) as u64 });
        match act {
            Act::Poll(p) => {
                poll_task(net, &mut tasks, &wakers, &flags, p, &mut outcomes, &mut max_alloc_req);
                polls += 1;
            }
            Act::Deliver(a, b) => lock(net).deliver(a, b),
        }
        // crash requests from the adversary
        let crashes = lock(net).take_crash_requests();
        for p in crashes {
            if tasks[p].is_some() {
                {
                    let mut g = lock(net);
                    g.crashed[p] = true;
                }
                // drop the future while its channel operations are inert
                let t = tasks[p].take();
                crate::alloc::set_party(None);
                let _ = catch_unwind(AssertUnwindSafe(|| drop(t)));
                outcomes[p] = Outcome::Crashed;
                let mut g = lock(net);
                g.finish_event(p, 3);
                g.close(p);
            }
        }
    };
    let ilv_hash = lock(net).ilv_hash;
    RunResult { outcomes, end, steps, sched_hash, ilv_hash, max_alloc_req, polls }
}

fn act_ix(a: Act, n: usize) -> usize {
    match a {
        Act::Poll(p) => p,
        Act::Deliver(a, b) => n + a * n + b,
    }
}

/// returns true if the task finished
fn poll_task<'a, T>(
    net: &Arc<Mutex<Net>>,
    tasks: &mut [Option<PartyFut<'a, T>>],
    wakers: &[Waker],
    flags: &[Arc<WakeFlag>],
    p: usize,
    outcomes: &mut [Outcome<T>],
    max_alloc_req: &mut [usize],
) -> bool {
    flags[p].0.store(false, Ordering::SeqCst);
    let mut cx = Context::from_waker(&wakers[p]);
    let Some(fut) = tasks[p].as_mut() else { return false };
    crate::hooks::set_current_party(Some(p));
    crate::alloc::set_party(Some(p));
    crate::alloc::reset_max();
    let r = catch_unwind(AssertUnwindSafe(|| fut.as_mut().poll(&mut cx)));
    let req = crate::alloc::max_request();
    crate::alloc::set_party(None);
    crate::hooks::set_current_party(None);
    if req > max_alloc_req[p] {
        max_alloc_req[p] = req;
    }
    match r {
        Ok(Poll::Pending) => false,
        Ok(Poll::Ready(v)) => {
            outcomes[p] = Outcome::Done(v);
            let t = tasks[p].take();
            let _ = catch_unwind(AssertUnwindSafe(|| drop(t)));
            let mut g = lock(net);
            g.finish_event(p, 0);
            g.close(p);
            true
        }
        Err(_) => {
            let (msg, loc) = take_last_panic().unwrap_or_default();
            outcomes[p] = Outcome::Panic(msg, loc);
            let t = tasks[p].take();
            // dropping a future that panicked mid-poll: leak it rather than risk a double panic
            std::mem::forget(t);
            let mut g = lock(net);
            g.finish_event(p, 2);
            g.close(p);
            true
        }
    }
}
