//! C07 - a party's global key stays secret, in honest runs and under attack.
use rand::{Rng, SeedableRng};
use rand_chacha::ChaCha8Rng;
use serde_json::{Value, json};

use crate::circ;
use crate::faults::{self, World};
use crate::leak;
use crate::report::Report;
use crate::runner::{Case, exec_mpc, parallel_for, threads};
use crate::shard;
use crate::sim::{Outcome, RunEnd, SchedKind};

pub fn build(tier: &str, seed: u64) -> World {
    let mut w = World::new(tier, seed);
    let mut cases = crate::props::c04::catalogue(&w, tier, seed, 1);
    cases.extend(crate::props::c03::catalogue(&w, tier, seed, 1));
    // a few generic deviations that keep the run going (taps)
    for c in &mut cases {
        c.scan_leak = true;
        c.needs_probes = true;
    }
    w.cases = cases;
    w
}

pub fn child(tier: &str, seed: u64, a: shard::ShardArgs) {
    build(tier, seed).child(a);
}

struct HonestOut {
    ok: bool,
    end: RunEnd,
    key: String,
    leaks: Vec<(usize, leak::LeakReport)>,
    windows: usize,
    fields: usize,
    triples_runs: usize,
    sample: Value,
    deltas: usize,
    repeat: Option<Value>,
    rep_windows: usize,
}

fn honest(i: usize, seed: u64, thorough: bool) -> HonestOut {
    let mut rng = ChaCha8Rng::seed_from_u64(seed ^ 0xc07 ^ (i as u64).wrapping_mul(0x9e3779b97f4a7c15));
    let n = match i % 6 { 0 | 1 | 2 => 2, 3 | 4 => 3, _ => 4 };
    let ands = [0usize, 1, 2, 4, 7][i % 5];
    let mut cfg = circ::random_gen_cfg(&mut rng, n, ands);
    cfg.feat_not_chain = true;
    cfg.others = cfg.others.max(3);
    // now and then: more than 1000 AND gates (two chunks of garbled gates) whose outputs at the same chunk
    // positions are circuit outputs, so that the evaluator reveals their labels in 'lambda'
    let big = i % 40 == 39 || (i == 7);
    let (n, c) = if big {
        let mut b = circ::Builder::new(&[2, 2]);
        let mut g = b.and(b.input(0, 0), b.input(1, 1));
        let mut outs = vec![g];
        let total = 1020 + (i % 3) * 7;
        for j in 1..total {
            let x = b.xor(g, b.input(j % 2, 0));
            g = b.and(x, b.input((j + 1) % 2, 1));
            if j < 20 || j >= 1000 {
                outs.push(g);
            }
        }
        (2, b.finish(outs))
    } else {
        (n, circ::gen_circuit(&mut rng, &cfg))
    };
    let inputs = circ::random_inputs(&mut rng, &c);
    let p_eval = rng.random_range(0..n);
    let all: Vec<usize> = (0..n).collect();
    let p_out: Vec<usize> = if big || rng.random_bool(0.5) { all.clone() } else { let k = rng.random_range(0..n); vec![k] };
    let expected = circ::eval_clear(&c, &inputs);
    let mut case = Case::new(c.clone(), inputs.clone(), p_eval, p_out.clone());
    case.record_probes = true;
    case = case.with_sched(if i % 3 == 0 { SchedKind::Random } else { SchedKind::RoundRobin }, rng.random());
    let ex = exec_mpc(case);
    let ok = ex.end == RunEnd::AllFinished
        && (0..n).all(|p| matches!(&ex.outcomes[p], Outcome::Done(Ok(v)) if *v == if p_out.contains(&p) { expected.clone() } else { vec![] }));
    let mut leaks = vec![];
    let mut windows = 0;
    let mut fields = 0;
    let mut triples_runs = 0;
    let mut deltas = 0;
    let do_triples = !big && n == 2 && (thorough || i % 4 == 0);
    for t in 0..n {
        let Some(d) = ex.probes.iter().find(|r| r.site == "delta" && r.index == t) else { continue };
        deltas += 1;
        let delta = u128::from_le_bytes(d.value[..16].try_into().unwrap());
        let r = leak::scan(&ex.net, delta, do_triples, None);
        windows += r.windows;
        fields = fields.max(r.fields);
        if r.triples_checked {
            triples_runs += 1;
        }
        if r.any() {
            leaks.push((t, r));
        }
    }
    let (rep_windows, repeat) = leak::repeat_scan(&ex.net, 1 << 18);
    let ands = if big { 1020 } else { ands };
    let key = format!("n={n} E={p_eval} O={:?} ands={} feat={}", p_out, ands, if big { "two-chunks".to_string() } else { cfg.features() });
    let sample = json!({"n": n, "p_eval": p_eval, "p_out": p_out, "circuit": circ::circ_to_json(&c), "messages": ex.net.msgs.len(), "bytes": ex.net.msgs.iter().map(|m| m.sent.len()).sum::<usize>(), "windows_scanned": windows, "decoded_fields": fields, "triples_checked": do_triples});
    HonestOut { ok, end: ex.end, key, leaks, windows, fields, triples_runs, sample, deltas, repeat, rep_windows }
}

/// Over 64 honest executions of one public configuration: no bit at a fixed position of a party's raw
/// traffic equals (or complements) a bit of its global key in every execution.
fn fixed_position_part(rep: &mut Report, seed: u64, n: usize, p_eval: usize, ands_extra: usize) {
    let c = faults::fault_circuit(n, ands_extra);
    let runs = parallel_for(64, threads(), |i| {
        let mut rng = ChaCha8Rng::seed_from_u64(seed ^ 0xf1c07 ^ (i as u64).wrapping_mul(0x9e3779b97f4a7c15) ^ ((n as u64) << 50) ^ ((p_eval as u64) << 48));
        let inputs: Vec<Vec<bool>> = (0..n).map(|_| vec![rng.random(), rng.random()]).collect();
        let mut case = Case::new(c.clone(), inputs, p_eval, (0..n).collect());
        case.record_probes = true;
        let ex = exec_mpc(case);
        if ex.end != RunEnd::AllFinished || !ex.outcomes.iter().all(|o| matches!(o, Outcome::Done(Ok(_)))) {
            return Err(format!("honest run failed: {:?}", ex.end));
        }
        let mut per_party: Vec<(u128, Vec<u8>, Vec<(String, usize, usize)>)> = vec![];
        for t in 0..n {
            let Some(d) = ex.probes.iter().find(|r| r.site == "delta" && r.index == t) else { return Err("no delta probe".into()) };
            let delta = u128::from_le_bytes(d.value[..16].try_into().unwrap());
            let mut sent = vec![];
            let mut layout = vec![];
            for m in ex.net.msgs.iter().filter(|m| m.from == t) {
                layout.push((ex.net.label(m.label).to_string(), m.k, sent.len()));
                sent.extend_from_slice(&m.sent);
            }
            per_party.push((delta, sent, layout));
        }
        Ok(per_party)
    });
    rep.evaluations += 64;
    let mut good = vec![];
    for r in runs {
        match r {
            Ok(x) => good.push(x),
            Err(e) => {
                if crate::hooks::HOOKS_ON { rep.harness_error(e) }
            }
        }
    }
    if good.len() < 64 {
        if crate::hooks::HOOKS_ON { rep.inconclusive("too few executions for the fixed-position scan"); }
        return;
    }
    for t in 0..n {
        let nbytes = good[0][t].1.len();
        if good.iter().any(|g| g[t].1.len() != nbytes) {
            rep.harness_error("traffic layout differs between executions (judged by C09)");
            continue;
        }
        let mut keys: std::collections::HashMap<u64, (usize, bool)> = Default::default();
        for b in 0..128 {
            let mut v = 0u64;
            for (e, g) in good.iter().enumerate() {
                v |= (((g[t].0 >> b) & 1) as u64) << e;
            }
            if v != 0 && v != u64::MAX {
                keys.insert(v, (b, false));
                keys.insert(!v, (b, true));
            }
        }
        let sent: Vec<&[u8]> = good.iter().map(|g| g[t].1.as_slice()).collect();
        let hits = leak::fixed_position_hits(&sent, &keys);
        rep.add("fixed_position_bits_scanned", (nbytes * 8) as u64);
        rep.add("fixed_position_key_bits", (keys.len() / 2) as u64);
        rep.distinct.insert(format!("fixed-position|n={n}|E={p_eval}|ands={}|party={t}", 3 + ands_extra));
        let mut reported: std::collections::HashSet<String> = Default::default();
        for (b, bit, (kb, compl)) in hits {
            let mut cur = (String::from("?"), 0usize, 0usize);
            for (l, k, s) in &good[0][t].2 {
                if *s <= b { cur = (l.clone(), *k, b - *s); } else { break; }
            }
            if reported.insert(cur.0.clone()) {
                rep.violation(format!("a bit at a fixed position of an honest party's traffic ('{}') equals a bit of its global key in every execution", cur.0), json!({"n": n, "p_eval": p_eval, "party": t, "key_bit": kb, "complemented": compl, "label": cur.0, "occurrence": cur.1, "byte_in_message": cur.2, "bit": bit, "executions": 64}));
            }
        }
    }
}

pub struct SeedProbeOut {
    pub key: String,
    pub end: RunEnd,
    pub sig: Option<String>,
    pub sample: Value,
    pub seeds_chosen: usize,
    pub candidates: usize,
    pub ok: bool,
}

/// Directed attack on the correlated-OT masking (property text: "correlated-OT correction is masked
/// by a TCCR hash"): the corrupted party of a 2-party preprocessing sends only honestly computed
/// messages but biases its own randomness - every base-OT seed k0 is chosen (tap) so that its PRG
/// row has equal bits at the OT indices of one byte, i.e. up to eight extension columns coincide.
/// From the honest party's Pi_LaAND message U and its own MACs / keys the attacker then computes,
/// for every pair (a, b) of coinciding columns, T = U[a]^U[b]^M[y][a]^M[y][b]^K[y][a]^K[y][b] and
/// tests T and T ^ (own global key). Alarm only if a candidate equals the honest party's global key.
pub fn seed_collision_probe(i: usize, seed: u64) -> SeedProbeOut {
    use crate::hooks::pv::{self, Pre};
    use crate::sim::{self, PartyFut, SimCfg, SimChan};
    let n = 2usize;
    let c = i % 2;
    let victim = 1 - c;
    let l_and = [4usize, 5, 7, 12][(i / 2) % 4];
    let b = pv::bucket_size(l_and);
    let lprime = l_and * b;
    let groups = (lprime / 8).min(2); // bytes of every row that are forced to 0x00 / 0xff (2^-14 per trial)
    let mut rng = ChaCha8Rng::seed_from_u64(seed ^ 0x5eed_c011 ^ (i as u64).wrapping_mul(0x9e3779b97f4a7c15));
    let deltas: Vec<u128> = (0..n).map(|_| rng.random()).collect();
    let chosen = std::rc::Rc::new(std::cell::Cell::new(0usize));
    let fired = std::rc::Rc::new(std::cell::Cell::new(0usize));
    {
        let f = chosen.clone();
        let fi = fired.clone();
        let mut srng = ChaCha8Rng::seed_from_u64(rng.random());
        crate::hooks::install_tap(Some(Box::new(move |site, party, idx, value| {
            if site == "alsz.base_seed" && party == Some(c) && idx % 2 == 0 && value.len() == 16 {
                fi.set(fi.get() + 1);
                for _ in 0..4_000_000u32 {
                    let cand: [u8; 16] = srng.random();
                    let row = pv::aes_rng_fill(cand, groups);
                    if row.iter().all(|x| *x == 0 || *x == 0xff) {
                        value.copy_from_slice(&cand);
                        f.set(f.get() + 1);
                        break;
                    }
                }
            }
        })));
    }
    crate::hooks::record_probes();
    let (net, chans) = SimChan::new_set(n, None);
    net.lock().unwrap().keep_bytes = true;
    let res = {
        let mut futs: Vec<PartyFut<'_, Result<usize, String>>> = vec![];
        for p in 0..n {
            let ch = &chans[p];
            let delta = deltas[p];
            futs.push(Box::pin(async move {
                let mut pre = Pre::setup(ch, p, n, delta).await?;
                let shares = pre.fashare(ch, 2 * l_and).await?;
                let ab: Vec<_> = (0..l_and).map(|j| (shares[2 * j].clone(), shares[2 * j + 1].clone())).collect();
                let z = pre.beaver_aand(ch, &ab).await?;
                Ok(z.len())
            }));
        }
        sim::run(&net, futs, &SimCfg::default())
    };
    crate::hooks::install_tap(None);
    let probes = crate::hooks::probes_snapshot();
    crate::hooks::clear_probes();
    let outcome = |p: usize| match &res.outcomes[p] {
        Outcome::Done(Ok(_)) => "Ok".to_string(),
        Outcome::Done(Err(e)) => format!("Err:{}", crate::props::err_class(e)),
        Outcome::Panic(_, l) => format!("Panic@{l}"),
        _ => "Unfinished".into(),
    };
    let key = format!("seed-collision|c={c}|ands={l_and}|bucket={b}|bytes={groups}");
    // attacker's view: its own x|y|r shares (MAC under the victim's key, own key for the victim's bit)
    let share = |party: usize, idx: usize| -> Option<(bool, u128, u128)> {
        let r = probes.iter().find(|r| r.site == "pre.xyz" && r.party == Some(party) && r.index == idx)?;
        let peer = 1 - party;
        let off = 1 + 32 * peer;
        let m = u128::from_le_bytes(r.value.get(off..off + 16)?.try_into().ok()?);
        let k = u128::from_le_bytes(r.value.get(off + 16..off + 32)?.try_into().ok()?);
        Some((r.value[0] & 1 != 0, m, k))
    };
    // the victim's first Pi_LaAND message to the attacker
    let u: Option<Vec<u128>> = {
        let net = net.lock().unwrap();
        let lab = net.labels.iter().position(|l| l == "flaand");
        lab.and_then(|lab| net.msgs.iter().find(|m| m.from == victim && m.to == c && m.label as usize == lab))
            .and_then(|m| m.wire.clone().or(Some(m.sent.clone())))
            .and_then(|bytes| crate::codec::schema_for("flaand").and_then(|s| crate::codec::decode_all(&s, &bytes)))
            .map(|v| {
                let mut out = vec![];
                crate::codec::u128_leaves(&v, &mut out);
                out
            })
    };
    let mut sig = None;
    let mut candidates = 0usize;
    let mut equal_keys = 0usize;
    let mut hit: Option<Value> = None;
    let mut ok = false;
    if let Some(u) = &u {
        if u.len() == lprime && chosen.get() >= 128 && chosen.get() == fired.get() {
            ok = true;
            for g in 0..groups {
                for a in 8 * g..8 * g + 8 {
                    for bb in a + 1..8 * g + 8 {
                        let (Some(ya), Some(yb)) = (share(c, lprime + a), share(c, lprime + bb)) else { ok = false; continue };
                        let t = u[a] ^ u[bb] ^ ya.1 ^ yb.1 ^ ya.2 ^ yb.2;
                        candidates += 2;
                        if (t == deltas[victim] || t ^ deltas[c] == deltas[victim]) && hit.is_none() {
                            hit = Some(json!({"columns": [a, bb], "candidate_needs_own_key": t != deltas[victim]}));
                        }
                        // informational: does the victim hold equal keys for the attacker's x bits?
                        if let (Some(va), Some(vb)) = (share(victim, a), share(victim, bb)) {
                            if va.2 == vb.2 { equal_keys += 1; }
                        }
                    }
                }
            }
        }
    }
    if let Some(h) = &hit {
        sig = Some(format!("a peer that only biases its own base-OT seeds (coinciding OT-extension columns) computes the honest party's global key from the Pi_LaAND message U and its own MACs / keys (6-element XOR); the party's own result={}", outcome(victim)));
        let _ = h;
    }
    let sample = json!({"probe": "corrupted party chooses its base-OT seeds so that OT-extension columns coincide; all messages honestly computed", "n": n, "corrupt": c, "ands": l_and, "bucket": b, "leaky_triples": lprime, "row_bytes_forced": groups, "seeds_chosen": chosen.get(), "victim_result": outcome(victim), "attacker_result": outcome(c), "u_values": u.as_ref().map(|u| u.len()), "candidates_tested": candidates, "pairs_with_equal_victim_keys": equal_keys, "hit": hit});
    SeedProbeOut { key, end: res.end, sig, sample, seeds_chosen: chosen.get(), candidates, ok }
}

pub fn run(tier: &str, seed: u64) -> i32 {
    let thorough = tier == "thorough";
    let mut rep = Report::new("C07", tier, seed, "fault_enumeration");
    rep.rule = "honest runs over generated circuits with NOT gates (n=2..4, every role; every 40th run a circuit with more than 1000 AND gates whose gate outputs are circuit outputs) and every adversarial execution of the C03 and C04 catalogues; in each execution the complete transcript (what honest parties sent, what the corrupted party put on the wire) is scanned for each honest party's global key (probe): the key itself at every byte offset in both byte orders, two 16-byte windows (every offset, both orders, mixed) XORing to the key, and (honest n=2 runs) three decoded 128-bit fields XORing to it; in addition, over 64 honest executions of one public configuration no bit at a fixed position of a party's raw traffic may equal or complement a bit of its global key in every execution; freshness: within one base-OT / OT-extension / garbled-gates message of an honest run no high-entropy 16-byte window occurs twice (points, columns, corrections and rows are blinded per element). distinct = honest configuration (n, evaluator, output set, AND class, features) or (configuration, corrupted party, label, deviation class); non-trivial = a delta probe was recorded and at least one window was scanned".into();
    rep.assumptions = vec!["XOR sets of size > 3, non-linear leakage and key bits leaked through abort behaviour (KOS selective failure) are not detected".into()];
    let n_honest = if thorough { 1500 } else { 120 };
    let outs = parallel_for(n_honest, threads(), |i| honest(i, seed, thorough));
    let mut windows = 0u64;
    let mut triples = 0u64;
    let mut maxfields = 0usize;
    for o in outs {
        rep.evaluations += 1;
        match &o.end {
            RunEnd::HarnessError(e) => { rep.harness_error(e.clone()); continue; }
            RunEnd::StepLimit => { rep.inconclusive("step limit"); continue; }
            _ => {}
        }
        if !o.ok {
            rep.harness_error(format!("honest run {} did not succeed", o.key));
            continue;
        }
        if crate::hooks::HOOKS_ON && o.deltas == 0 {
            rep.harness_error("no delta probe in an honest run");
            continue;
        }
        windows += o.windows as u64;
        triples += o.triples_runs as u64;
        maxfields = maxfields.max(o.fields);
        if o.windows > 0 {
            rep.distinct.insert(format!("honest|{}", o.key));
        }
        rep.add("freshness_windows_scanned", o.rep_windows as u64);
        if let Some(r) = &o.repeat {
            if r.get("kind").is_some() {
                rep.violation(format!("a high-entropy value of an OT message of an honest party re-appears in another of its OT messages ('{}' and '{}'): the pairwise OT instances do not use independent coins", r["first"]["label"].as_str().unwrap_or("?"), r["second"]["label"].as_str().unwrap_or("?")), json!({"run": o.sample, "repeat": r}));
            } else {
                rep.violation(format!("a high-entropy value repeats within one message of an honest party ('{}'): a value that blinds a secret was reused", r["label"].as_str().unwrap_or("?")), json!({"run": o.sample, "repeat": r}));
            }
        }
        for (t, l) in &o.leaks {
            let labels = match (&l.direct, &l.pair, &l.triple) {
                (Some(d), _, _) => format!("{}", d["label"].as_str().unwrap_or("?")),
                (_, Some(p), _) => format!("{} ^ {}", p["a"]["label"].as_str().unwrap_or("?"), p["b"]["label"].as_str().unwrap_or("?")),
                (_, _, Some(t)) => format!("{} ^ {} ^ {}", t["a"]["label"].as_str().unwrap_or("?"), t["b"]["label"].as_str().unwrap_or("?"), t["c"]["label"].as_str().unwrap_or("?")),
                _ => String::new(),
            };
            rep.violation(format!("global key leaked in an honest run ({}: {labels})", l.kind()), json!({"run": o.sample, "target": t, "direct": l.direct, "pair": l.pair, "triple": l.triple}));
        }
        if rep.samples.len() < 2 {
            rep.sample(o.sample);
        }
    }
    // fixed-position disclosure of single key bits over 64 honest executions
    for (n, p_eval, extra) in if thorough { vec![(2usize, 0usize, 0usize), (2, 1, 0), (3, 0, 0), (3, 2, 0), (2, 0, 997), (2, 1, 1200), (4, 1, 0)] } else { vec![(2, (seed % 2) as usize, 0), (3, (seed % 3) as usize, 0), (2, ((seed + 1) % 2) as usize, 997)] } {
        fixed_position_part(&mut rep, seed, n, p_eval, extra);
    }
    let w = build(tier, seed);
    let mut adv_windows = 0u64;
    let mut cnt = 0u64;
    let mut continued = 0u64;
    w.drive("C07", tier, seed, &mut rep, |rep, fc, cfg, v| {
        let via = format!("label={} mut={}", fc.label, fc.class);
        let Some(ls) = v["leak"].as_array() else { return };
        let mut any_scan = false;
        for l in ls {
            if l["no_delta_probe"].as_bool().unwrap_or(false) {
                continue;
            }
            any_scan = true;
            adv_windows += l["windows"].as_u64().unwrap_or(0);
            let kind = l["kind"].as_str().unwrap_or("none");
            if kind != "none" {
                let labels = if kind == "key-in-clear" { l["direct"]["label"].as_str().unwrap_or("?").to_string() } else {
                    let mut ab = [l["pair"]["a"]["label"].as_str().unwrap_or("?"), l["pair"]["b"]["label"].as_str().unwrap_or("?")];
                    ab.sort();
                    format!("{} ^ {}", ab[0], ab[1])
                };
                let t = l["target"].as_u64().unwrap_or(0) as usize;
                let res = v["outcomes"][t].as_str().unwrap_or("?");
                let _ = &via;
                rep.violation(format!("global key of an honest party leaked under a peer's deviation ({kind}: {labels}); the party's own result={res}"), v.clone());
            }
        }
        if any_scan && faults::effective(fc, v) {
            rep.distinct.insert(format!("{}|c{}|{}|{}", cfg.name, fc.plan.corrupt, fc.label, fc.class));
        }
        if v["victims"].as_array().map(|a| a.iter().any(|x| x["proceeded_to_online"].as_bool().unwrap_or(false))).unwrap_or(false) {
            continued += 1;
        }
        cnt += 1;
        if cnt % 301 == 1 {
            rep.sample(v.clone());
        }
    });
    // directed attack: coinciding OT-extension columns (chosen base-OT seeds)
    if crate::hooks::HOOKS_ON {
        let n_sp = if thorough { 64 } else { 8 };
        let outs = parallel_for(n_sp, threads(), |i| seed_collision_probe(i, seed));
        let mut cands = 0u64;
        let mut seeds = 0u64;
        for o in outs {
            rep.evaluations += 1;
            match &o.end {
                RunEnd::HarnessError(e) => { rep.harness_error(e.clone()); continue; }
                RunEnd::StepLimit => { rep.inconclusive("step limit"); continue; }
                _ => {}
            }
            if !o.ok {
                rep.harness_error(format!("seed-collision probe {} did not reach the Pi_LaAND message or the seed tap did not fire: {}", o.key, o.sample));
                continue;
            }
            cands += o.candidates as u64;
            seeds += o.seeds_chosen as u64;
            rep.distinct.insert(o.key.clone());
            if let Some(s) = &o.sig {
                rep.violation(s.clone(), o.sample.clone());
            }
            if rep.samples.len() < 4 {
                rep.sample(o.sample);
            }
        }
        rep.set("seed_collision_candidates_tested", json!(cands));
        rep.set("seed_collision_base_seeds_chosen", json!(seeds));
    }
    rep.set("windows_scanned_honest", json!(windows));
    rep.set("windows_scanned_adversarial", json!(adv_windows));
    rep.set("honest_runs_with_triple_scan", json!(triples));
    rep.set("max_decoded_fields", json!(maxfields));
    rep.set("adversarial_runs_where_victim_reached_online_phase", json!(continued));
    if windows == 0 {
        rep.harness_error("nothing scanned");
    }
    rep.finish()
}
