#[doc(hidden)]
pub mod __private19 {
    #[doc(hidden)]
    pub use crate::private::*;
}
