//! References for C20 (transpose, carry-less multiply, fixed-key AES hashes, AES counter PRG) and
//! the comparison routines. Used natively by `pv` and by `prim-run` under Miri / ASan / memcheck.
use polytune::verif as pv;

// ------------------------------------------------------------------------------------------------
// table-free AES-128 (FIPS-197), independent of the `aes` crate
// ------------------------------------------------------------------------------------------------

fn gmul(mut a: u8, mut b: u8) -> u8 {
    let mut p = 0u8;
    for _ in 0..8 {
        if b & 1 != 0 {
            p ^= a;
        }
        let hi = a & 0x80;
        a <<= 1;
        if hi != 0 {
            a ^= 0x1b;
        }
        b >>= 1;
    }
    p
}

fn sbox(x: u8) -> u8 {
    // multiplicative inverse (x^254) followed by the affine map
    let mut inv = 1u8;
    if x != 0 {
        let mut acc = x;
        // x^254 = x^(2+4+8+16+32+64+128)
        let mut r = 1u8;
        for _ in 0..7 {
            acc = gmul(acc, acc);
            r = gmul(r, acc);
        }
        inv = r;
    } else {
        inv = 0 * inv;
    }
    let mut y = inv;
    let mut res = inv;
    for _ in 0..4 {
        y = y.rotate_left(1);
        res ^= y;
    }
    res ^ 0x63
}

pub struct Aes128Ref {
    rk: [[u8; 16]; 11],
}

impl Aes128Ref {
    pub fn new(key: [u8; 16]) -> Self {
        let mut w = [[0u8; 4]; 44];
        for i in 0..4 {
            w[i].copy_from_slice(&key[4 * i..4 * i + 4]);
        }
        let mut rcon = 1u8;
        for i in 4..44 {
            let mut t = w[i - 1];
            if i % 4 == 0 {
                t = [sbox(t[1]) ^ rcon, sbox(t[2]), sbox(t[3]), sbox(t[0])];
                rcon = gmul(rcon, 2);
            }
            for j in 0..4 {
                w[i][j] = w[i - 4][j] ^ t[j];
            }
        }
        let mut rk = [[0u8; 16]; 11];
        for r in 0..11 {
            for c in 0..4 {
                rk[r][4 * c..4 * c + 4].copy_from_slice(&w[4 * r + c]);
            }
        }
        Aes128Ref { rk }
    }

    pub fn encrypt(&self, block: [u8; 16]) -> [u8; 16] {
        let mut s = block;
        let add = |s: &mut [u8; 16], k: &[u8; 16]| s.iter_mut().zip(k).for_each(|(a, b)| *a ^= *b);
        add(&mut s, &self.rk[0]);
        for round in 1..=10 {
            for b in s.iter_mut() {
                *b = sbox(*b);
            }
            // shift rows (column-major state)
            let t = s;
            for c in 0..4 {
                for r in 0..4 {
                    s[4 * c + r] = t[4 * ((c + r) % 4) + r];
                }
            }
            if round != 10 {
                for c in 0..4 {
                    let col = [s[4 * c], s[4 * c + 1], s[4 * c + 2], s[4 * c + 3]];
                    s[4 * c] = gmul(col[0], 2) ^ gmul(col[1], 3) ^ col[2] ^ col[3];
                    s[4 * c + 1] = col[0] ^ gmul(col[1], 2) ^ gmul(col[2], 3) ^ col[3];
                    s[4 * c + 2] = col[0] ^ col[1] ^ gmul(col[2], 2) ^ gmul(col[3], 3);
                    s[4 * c + 3] = gmul(col[0], 3) ^ col[1] ^ col[2] ^ gmul(col[3], 2);
                }
            }
            add(&mut s, &self.rk[round]);
        }
        s
    }
}

/// FIPS-197 appendix C.1 vector.
pub fn aes_self_test() -> bool {
    let key: [u8; 16] = core::array::from_fn(|i| i as u8);
    let pt: [u8; 16] = core::array::from_fn(|i| (i as u8) * 0x11);
    let ct = Aes128Ref::new(key).encrypt(pt);
    ct == [0x69, 0xc4, 0xe0, 0xd8, 0x6a, 0x7b, 0x04, 0x30, 0xd8, 0xcd, 0xb7, 0x80, 0x70, 0xb4, 0xc5, 0x5a]
}

fn aes_crate_encrypt(key: [u8; 16], block: [u8; 16]) -> [u8; 16] {
    use aes::cipher::{BlockCipherEncrypt, KeyInit};
    let c = aes::Aes128::new(&key.into());
    let mut b = aes::Block::from(block);
    c.encrypt_block(&mut b);
    b.into()
}

pub const FIXED_KEY: u128 = 193502124791825095790518994062991136444;

// ------------------------------------------------------------------------------------------------
// references
// ------------------------------------------------------------------------------------------------

/// naive bit-matrix transpose: input rows x cols (row-major, bit j of a row = bit j%8 (lsb first)
/// of byte j/8), output cols x rows
pub fn transpose_naive(input: &[u8], rows: usize) -> Vec<u8> {
    let cols = input.len() * 8 / rows;
    let mut out = vec![0u8; input.len()];
    for r in 0..rows {
        for c in 0..cols {
            let bit = input[(r * cols + c) / 8] >> ((r * cols + c) % 8) & 1;
            if bit != 0 {
                let o = c * rows + r;
                out[o / 8] |= 1 << (o % 8);
            }
        }
    }
    out
}

/// schoolbook GF(2)[x] product of two 128-bit polynomials: (low, high)
pub fn clmul_schoolbook(a: u128, b: u128) -> (u128, u128) {
    let (mut lo, mut hi) = (0u128, 0u128);
    for i in 0..128 {
        if b >> i & 1 == 1 {
            lo ^= a << i;
            if i > 0 {
                hi ^= a >> (128 - i);
            }
        }
    }
    (lo, hi)
}

pub struct Rng(pub u64);
impl Rng {
    pub fn next(&mut self) -> u64 {
        // splitmix64
        self.0 = self.0.wrapping_add(0x9e3779b97f4a7c15);
        let mut z = self.0;
        z = (z ^ (z >> 30)).wrapping_mul(0xbf58476d1ce4e5b9);
        z = (z ^ (z >> 27)).wrapping_mul(0x94d049bb133111eb);
        z ^ (z >> 31)
    }
    pub fn u128(&mut self) -> u128 {
        (self.next() as u128) << 64 | self.next() as u128
    }
    pub fn bytes(&mut self, n: usize) -> Vec<u8> {
        (0..n).map(|_| self.next() as u8).collect()
    }
    pub fn block(&mut self) -> [u8; 16] {
        self.u128().to_le_bytes()
    }
}

#[derive(Default, Debug)]
pub struct Tally {
    pub checks: u64,
    pub distinct: Vec<String>,
    pub mismatches: Vec<String>,
    pub samples: Vec<String>,
}

impl Tally {
    fn ok(&mut self, key: String) {
        self.checks += 1;
        if !self.distinct.contains(&key) {
            self.distinct.push(key);
        }
    }
    fn bad(&mut self, sig: String) {
        if self.mismatches.len() < 20 && !self.mismatches.contains(&sig) {
            self.mismatches.push(sig);
        }
    }
    pub fn merge(&mut self, o: Tally) {
        self.checks += o.checks;
        for d in o.distinct {
            if !self.distinct.contains(&d) {
                self.distinct.push(d);
            }
        }
        for m in o.mismatches {
            self.bad(m);
        }
        for s in o.samples {
            if self.samples.len() < 8 {
                self.samples.push(s);
            }
        }
    }
}

/// transpose: dispatching and portable against the naive reference, for one shape and alignment
pub fn check_transpose(t: &mut Tally, rng: &mut Rng, rows: usize, cols: usize, align: usize) {
    let len = rows * cols / 8;
    // place the input at the requested offset inside a larger buffer
    let mut backing = vec![0u8; len + 64];
    let base = backing.as_ptr() as usize;
    let off = (16 - base % 16) % 16 + align;
    let data = rng.bytes(len);
    backing[off..off + len].copy_from_slice(&data);
    let input = &backing[off..off + len];
    let want = transpose_naive(input, rows);
    let mut out_backing = vec![0u8; len + 64];
    let obase = out_backing.as_ptr() as usize;
    let ooff = (16 - obase % 16) % 16 + (align * 7) % 16;
    pv::transpose_bitmatrix(input, &mut out_backing[ooff..ooff + len], rows);
    let got_dispatch = out_backing[ooff..ooff + len].to_vec();
    let mut got_portable = vec![0u8; len];
    pv::transpose_portable(input, &mut got_portable, rows);
    let class = format!("transpose rows={rows} cols%128={} cols%512={} align={}", cols % 128, cols % 512, align);
    if got_dispatch != want {
        t.bad(format!("transpose (dispatching implementation) differs from the bit-by-bit transpose: rows={rows} cols={cols}"));
    }
    if got_portable != want {
        t.bad(format!("transpose (portable implementation) differs from the bit-by-bit transpose: rows={rows} cols={cols}"));
    }
    if t.samples.len() < 2 {
        t.samples.push(format!("transpose {rows}x{cols} input offset {} : ok", off % 16));
    }
    t.ok(class);
}

pub fn check_clmul(t: &mut Tally, a: u128, b: u128, class: &str) {
    let want = clmul_schoolbook(a, b);
    let d = pv::clmul(a, b);
    let s = pv::clmul_scalar(a, b);
    if d != want {
        t.bad(format!("carry-less multiply (dispatching) differs from the schoolbook product ({class})"));
    }
    if s != want {
        t.bad(format!("carry-less multiply (scalar) differs from the schoolbook product ({class})"));
    }
    t.ok(format!("clmul {class}"));
}

pub fn check_hashes(t: &mut Tally, x: [u8; 16], tweak: [u8; 16], class: &str) {
    let key = FIXED_KEY.to_le_bytes();
    let r = Aes128Ref::new(key);
    let pi = |b: [u8; 16]| {
        let a = r.encrypt(b);
        let c = aes_crate_encrypt(key, b);
        (a, a == c)
    };
    let xor = |a: [u8; 16], b: [u8; 16]| -> [u8; 16] { core::array::from_fn(|i| a[i] ^ b[i]) };
    let (px, agree1) = pi(x);
    let want_cr = xor(px, x);
    let (ppt, agree2) = pi(xor(px, tweak));
    let want_tccr = xor(ppt, px);
    if !(agree1 && agree2) {
        t.bad("reference AES implementations disagree (harness)".into());
    }
    if pv::cr_hash(x) != want_cr {
        t.bad(format!("cr hash differs from pi(x) ^ x ({class})"));
    }
    if pv::tccr_hash(tweak, x) != want_tccr {
        t.bad(format!("tccr hash differs from pi(pi(x) ^ t) ^ pi(x) ({class})"));
    }
    t.ok(format!("hash {class}"));
}

/// AES-128-CTR keystream under `seed`: little-endian 128-bit counter from 0
pub fn ctr_keystream(seed: [u8; 16], n: usize) -> Vec<u8> {
    let r = Aes128Ref::new(seed);
    let mut out = Vec::with_capacity(n + 16);
    let mut ctr = 0u128;
    while out.len() < n {
        out.extend_from_slice(&r.encrypt(ctr.to_le_bytes()));
        ctr += 1;
    }
    out.truncate(n);
    out
}

pub fn check_rng(t: &mut Tally, seed: [u8; 16], n: usize) {
    let want = ctr_keystream(seed, n);
    let got = pv::aes_rng_fill(seed, n);
    if got != want {
        let first = got.iter().zip(&want).position(|(a, b)| a != b).unwrap_or(0);
        t.bad(format!("AES generator output differs from the AES-128 counter-mode keystream (request of {} blocks + {} bytes, first difference in block {})", n / 16, n % 16, first / 16));
    }
    // cross-check the keystream reference against the aes crate on the first block
    if n >= 16 && aes_crate_encrypt(seed, 0u128.to_le_bytes())[..] != want[..16] {
        t.bad("reference AES implementations disagree (harness)".into());
    }
    t.ok(format!("rng len%16={} blocks%8={}", n % 16, (n / 16) % 8));
}

/// Successive requests on one generator. The generator buffers several blocks at a time, so the
/// concatenation of successive requests is not the contiguous keystream; what a counter-mode generator
/// guarantees is that no keystream block is handed out twice: every whole block of a request is the
/// encryption of a counter value that no other whole block and no tail of the sequence comes from, and
/// every tail (6+ bytes) is a word-aligned slice of a keystream block.
pub fn check_rng_seq(t: &mut Tally, seed: [u8; 16], lens: &[usize]) {
    let outs = pv::aes_rng_fill_seq(seed, lens);
    let total: usize = lens.iter().sum();
    let n_blocks = total / 16 + 24 * lens.len() + 32;
    let ks = ctr_keystream(seed, n_blocks * 16);
    let mut by_block: std::collections::HashMap<[u8; 16], usize> = std::collections::HashMap::with_capacity(n_blocks);
    for c in 0..n_blocks {
        by_block.insert(ks[c * 16..c * 16 + 16].try_into().unwrap(), c);
    }
    // 0 = unused, 1 = handed out as a whole block, 2 = source of a tail
    let mut used = vec![0u8; n_blocks];
    let mut tail_ranges: Vec<(usize, usize, usize)> = vec![];
    for (ri, (out, want_len)) in outs.iter().zip(lens).enumerate() {
        if out.len() != *want_len {
            t.bad(format!("AES generator returned {} bytes for a request of {} (request {} of a sequence)", out.len(), want_len, ri));
            return;
        }
        let whole = out.len() / 16;
        for b in 0..whole {
            let blk: [u8; 16] = out[b * 16..b * 16 + 16].try_into().unwrap();
            match by_block.get(&blk) {
                None => {
                    t.bad("AES generator: a block of a later request in a sequence is not a counter-mode keystream block".to_string());
                    return;
                }
                Some(c) if used[*c] != 0 => {
                    t.bad("AES generator: successive requests on one generator hand out the same keystream block twice (counter value reused)".to_string());
                    return;
                }
                Some(c) => used[*c] = 1,
            }
        }
        let tail = &out[whole * 16..];
        if tail.len() >= 6 {
            let mut src = None;
            'find: for c in 0..n_blocks {
                for off in (0..=16 - tail.len()).step_by(4) {
                    if ks[c * 16 + off..c * 16 + off + tail.len()] == *tail {
                        src = Some((c, off));
                        break 'find;
                    }
                }
            }
            match src {
                Some((c, _)) if used[c] == 1 => {
                    t.bad("AES generator: the tail of a request comes from a keystream block that was handed out as a whole block (counter value reused)".to_string());
                    return;
                }
                Some((c, off)) => {
                    // successive tails legitimately take successive words of one buffered block; handing
                    // out the same bytes of a block twice is a reuse
                    let (a0, a1) = (off, off + tail.len());
                    if tail_ranges.iter().any(|(cc, b0, b1)| *cc == c && a0 < *b1 && *b0 < a1) {
                        t.bad("AES generator: two tails of one sequence hand out the same bytes of a keystream block (counter value reused)".to_string());
                        return;
                    }
                    tail_ranges.push((c, a0, a1));
                    used[c] = 2;
                }
                None => {
                    // a tail may be assembled from two buffered blocks; not judged
                }
            }
        }
    }
    t.ok(format!("rng sequence of {} requests, tails={}", lens.len().min(6), lens.iter().filter(|l| *l % 16 != 0).count().min(3)));
}

/// The complete comparison workload; `scale` 0 = tiny (Miri), 1 = quick, 2 = thorough.
pub fn run_all(seed: u64, scale: u32) -> Tally {
    let mut t = Tally::default();
    let mut rng = Rng(seed ^ 0xc20);
    if !aes_self_test() {
        t.bad("FIPS-197 self test of the reference AES failed (harness)".into());
        return t;
    }
    // transpose: 128 x c
    let cols: Vec<usize> = match scale {
        0 => vec![16, 24, 136, 264],
        1 => (16..=4096).step_by(8).filter(|c| *c <= 640 || c % 128 <= 8 || c % 512 == 504 || c % 104 == 0).collect(),
        _ => (16..=4096).step_by(8).collect(),
    };
    for (i, c) in cols.iter().enumerate() {
        let aligns: Vec<usize> = if scale == 0 { vec![(i * 3) % 16] } else if scale == 1 { vec![i % 16] } else { vec![0, i % 16, (i * 5 + 1) % 16] };
        for a in aligns {
            check_transpose(&mut t, &mut rng, 128, *c, a);
        }
    }
    if scale >= 1 {
        // every alignment on a few shapes, and rows that are larger multiples of 128
        for a in 0..16 {
            check_transpose(&mut t, &mut rng, 128, 296, a);
            check_transpose(&mut t, &mut rng, 128, 1024, a);
        }
        for (rows, cols) in [(256, 128), (256, 24), (384, 136), (512, 512), (640, 72), (1024, 16), (256, 1032)] {
            check_transpose(&mut t, &mut rng, rows, cols, (rows / 128) % 16);
        }
        let n_rand = if scale == 1 { 40 } else { 600 };
        for _ in 0..n_rand {
            let rows = 128 * (1 + rng.next() as usize % 6);
            let cols = 16 + 8 * (rng.next() as usize % 120);
            let al = rng.next() as usize % 16;
            check_transpose(&mut t, &mut rng, rows, cols, al);
        }
    } else {
        check_transpose(&mut t, &mut rng, 256, 24, 1);
    }
    // clmul
    let step = if scale == 0 { 31 } else { 1 };
    for i in (0..128).step_by(step) {
        for j in (0..128).step_by(step) {
            check_clmul(&mut t, 1u128 << i, 1u128 << j, "basis pair");
        }
    }
    check_clmul(&mut t, u128::MAX, u128::MAX, "all ones");
    check_clmul(&mut t, 0, rng.u128(), "zero");
    check_clmul(&mut t, 1, rng.u128(), "one");
    let n_rand = [12, 4000, 200_000][scale as usize];
    for i in 0..n_rand {
        let (a, b) = match i % 4 {
            0 => (rng.u128(), rng.u128()),
            1 => (rng.u128() & rng.u128() & rng.u128(), rng.u128()), // sparse
            2 => (rng.u128() | rng.u128() | rng.u128(), rng.u128() | rng.u128()), // dense
            _ => (rng.u128() << 64, rng.u128() >> 64),
        };
        check_clmul(&mut t, a, b, ["random", "sparse", "dense", "half"][i % 4]);
    }
    // hashes
    let n_h = [4, 2000, 50_000][scale as usize];
    for i in 0..n_h {
        let x = rng.block();
        let (tw, class) = match i % 4 {
            0 => ([0u8; 16], "tweak 0"),
            1 => (x, "tweak = x"),
            2 => ((i as u128).to_le_bytes(), "counter tweak"),
            _ => (rng.block(), "random tweak"),
        };
        check_hashes(&mut t, x, tw, class);
    }
    check_hashes(&mut t, [0; 16], [0; 16], "zero block");
    check_hashes(&mut t, [0xff; 16], [0xff; 16], "all ones block");
    // generator: every request length in one call on a fresh generator
    let lens: Vec<usize> = match scale {
        0 => vec![0, 1, 17, 128, 129, 143],
        _ => (0..=1100).collect(),
    };
    for n in lens {
        let seeds = if scale == 2 { 3 } else { 1 };
        for _ in 0..seeds {
            check_rng(&mut t, rng.block(), n);
        }
    }
    if scale == 2 {
        for n in [4096usize, 65_536, 100_003] {
            check_rng(&mut t, rng.block(), n);
        }
    }
    // generator: sequences of requests on one generator
    let n_seq = match scale { 0 => 0, 1 => 300, _ => 3000 };
    for k in 0..n_seq {
        let n_req = 2 + (rng.next() % 5) as usize;
        let lens: Vec<usize> = (0..n_req).map(|j| match (k + j) % 5 { 0 => 16 * (1 + (rng.next() % 12) as usize), 1 => 7 + (rng.next() % 200) as usize, 2 => 128 + (rng.next() % 40) as usize, 3 => 6 + (rng.next() % 10) as usize, _ => (rng.next() % 600) as usize }).collect();
        check_rng_seq(&mut t, rng.block(), &lens);
    }
    t
}
