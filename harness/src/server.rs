//! Explorer for `polytune-server-core`: real `PolicyState` actors on a tokio current-thread
//! runtime with paused clock; every coordination RPC of the in-process `PolicyClient` is a
//! pending delivery that the explorer releases (or fails) one at a time.
use std::collections::HashMap;
use std::sync::atomic::{AtomicU64, AtomicUsize, Ordering};
use std::sync::{Arc, Mutex};

use polytune::garble_lang::literal::Literal;
use polytune_server_core::{
    ConstsRequest, MpcMsg, OutputError, Policy, PolicyClient, PolicyClientBuilder, PolicyState, PolicyStateHandle, RunRequest, ValidateRequest,
};
use rand::{Rng, SeedableRng};
use rand_chacha::ChaCha8Rng;
use serde_json::{Value, json};
use tokio::sync::{Semaphore, oneshot};
use tokio::task::JoinHandle;

#[derive(Debug, Clone, Copy, PartialEq, Eq, Hash, PartialOrd, Ord)]
pub enum RpcKind {
    Validate,
    Run,
    Consts,
    Msg,
    /// the answer to a coordination RPC on its way back to the caller (only with `gate_replies`)
    Reply,
}

#[derive(Debug)]
pub enum Release {
    Deliver,
    Fail,
}

#[derive(Debug, thiserror::Error)]
pub enum ClientErr {
    #[error("injected RPC failure")]
    Injected,
    #[error("remote error: {0}")]
    Remote(String),
    #[error("explorer dropped the delivery")]
    Dropped,
}

pub struct Pending {
    pub id: usize,
    pub comp: usize,
    pub from: usize,
    pub to: usize,
    pub kind: RpcKind,
    gate: oneshot::Sender<Release>,
}

#[derive(Clone, Debug)]
pub struct OutputRec {
    pub t: u64,
    pub comp: usize,
    pub party: usize,
    pub url: String,
    /// Ok(json of the literal) | Err(kind)
    pub result: Result<Value, String>,
    /// the delivery to the destination failed (injected)
    pub delivery_failed: bool,
    /// logical time at which the output() call completed (t = when it started)
    pub t_done: u64,
}

#[derive(Clone, Debug)]
pub struct RpcRec {
    pub t_issue: u64,
    pub t_release: Option<u64>,
    pub t_done: Option<u64>,
    pub comp: usize,
    pub from: usize,
    pub to: usize,
    pub kind: RpcKind,
    pub fate: &'static str,
    pub result: Option<String>,
}

pub struct Shared {
    pub clock: AtomicU64,
    pub handles: Mutex<HashMap<(usize, usize), PolicyStateHandle>>,
    pub pending: Mutex<Vec<Pending>>,
    pub next_id: AtomicUsize,
    pub outputs: Mutex<Vec<OutputRec>>,
    pub rpcs: Mutex<Vec<RpcRec>>,
    pub msg_calls: AtomicUsize,
    /// gate MPC messages too (otherwise they are delivered immediately)
    pub gate_msgs: bool,
    /// every output() call fails (unreachable destination)
    pub fail_outputs: bool,
    /// the answers to coordination RPCs are gated as well (they travel independently of requests)
    pub gate_replies: bool,
    /// multi-thread stress mode: deliveries are not gated by the explorer but delayed by a
    /// pseudo-random real time of up to this many microseconds (0 = explorer-gated)
    pub auto_delay_us: u64,
    pub auto_seed: u64,
    /// fail the k-th RPC of a kind in auto mode
    pub auto_fail: Option<(RpcKind, usize)>,
    pub auto_kind_count: Mutex<HashMap<RpcKind, usize>>,
    /// calls injected by the explorer (and by `cancel_on_output`)
    pub injected: Arc<Mutex<Vec<CallRec>>>,
    /// (comp, party, after): cancel that party's policy at the moment its output destination is being
    /// notified (after = false) or right after the notification has been delivered (after = true)
    pub cancel_on_output: Mutex<Vec<(usize, usize, bool)>>,
}

impl Shared {
    pub fn tick(&self) -> u64 {
        self.clock.fetch_add(1, Ordering::SeqCst) + 1
    }
}

#[derive(Clone)]
pub struct GatedClient {
    shared: Arc<Shared>,
    comp: usize,
    me: usize,
}

pub struct GatedBuilder {
    pub shared: Arc<Shared>,
    pub comp: usize,
    pub me: usize,
}

impl PolicyClientBuilder for GatedBuilder {
    type Client = GatedClient;
    fn new_client(&self, _policy: &Policy) -> GatedClient {
        GatedClient { shared: self.shared.clone(), comp: self.comp, me: self.me }
    }
}

impl GatedClient {
    async fn gate(&self, to: usize, kind: RpcKind) -> (usize, Result<PolicyStateHandle, ClientErr>) {
        let (tx, rx) = oneshot::channel();
        let id = self.shared.next_id.fetch_add(1, Ordering::SeqCst);
        let t = self.shared.tick();
        {
            let mut r = self.shared.rpcs.lock().unwrap();
            // rpcs is indexed by id
            while r.len() <= id {
                r.push(RpcRec { t_issue: 0, t_release: None, t_done: None, comp: 0, from: 0, to: 0, kind: RpcKind::Msg, fate: "unused", result: None });
            }
            r[id] = RpcRec { t_issue: t, t_release: None, t_done: None, comp: self.comp, from: self.me, to, kind, fate: "pending", result: None };
        }
        if self.shared.auto_delay_us > 0 {
            // stress mode: real, pseudo-random delay instead of an explorer decision
            let h = (id as u64).wrapping_mul(0x9e3779b97f4a7c15) ^ self.shared.auto_seed;
            let us = (h >> 17) % self.shared.auto_delay_us;
            if kind != RpcKind::Msg || us % 4 == 0 {
                tokio::time::sleep(std::time::Duration::from_micros(us)).await;
            }
            let fail = {
                let mut c = self.shared.auto_kind_count.lock().unwrap();
                let e = c.entry(kind).or_insert(0);
                let k = *e;
                *e += 1;
                self.shared.auto_fail == Some((kind, k))
            };
            let t = self.shared.tick();
            {
                let mut r = self.shared.rpcs.lock().unwrap();
                r[id].t_release = Some(t);
                r[id].fate = if fail { "failed" } else { "delivered" };
            }
            if fail {
                return (id, Err(ClientErr::Injected));
            }
        } else if kind == RpcKind::Msg && !self.shared.gate_msgs {
            self.shared.rpcs.lock().unwrap()[id].fate = "delivered";
        } else {
            self.shared.pending.lock().unwrap().push(Pending { id, comp: self.comp, from: self.me, to, kind, gate: tx });
            match rx.await {
                Ok(Release::Deliver) => {}
                Ok(Release::Fail) => return (id, Err(ClientErr::Injected)),
                Err(_) => return (id, Err(ClientErr::Dropped)),
            }
        }
        let h = self.shared.handles.lock().unwrap().get(&(self.comp, to)).cloned();
        match h {
            Some(h) => (id, Ok(h)),
            None => (id, Err(ClientErr::Remote(format!("no such party {to}")))),
        }
    }

    /// holds the answer of a coordination RPC back until the explorer releases it
    async fn reply_gate(&self, to: usize, kind: RpcKind) {
        if !self.shared.gate_replies || kind == RpcKind::Msg || self.shared.auto_delay_us > 0 {
            return;
        }
        let (tx, rx) = oneshot::channel();
        let id = self.shared.next_id.fetch_add(1, Ordering::SeqCst);
        let t = self.shared.tick();
        {
            let mut r = self.shared.rpcs.lock().unwrap();
            while r.len() <= id {
                r.push(RpcRec { t_issue: 0, t_release: None, t_done: None, comp: 0, from: 0, to: 0, kind: RpcKind::Msg, fate: "unused", result: None });
            }
            r[id] = RpcRec { t_issue: t, t_release: None, t_done: None, comp: self.comp, from: to, to: self.me, kind: RpcKind::Reply, fate: "pending", result: None };
        }
        self.shared.pending.lock().unwrap().push(Pending { id, comp: self.comp, from: to, to: self.me, kind: RpcKind::Reply, gate: tx });
        let _ = rx.await;
        let t = self.shared.tick();
        self.shared.rpcs.lock().unwrap()[id].t_done = Some(t);
    }

    fn done(&self, id: usize, res: &Result<(), ClientErr>) {
        let t = self.shared.tick();
        let mut r = self.shared.rpcs.lock().unwrap();
        r[id].t_done = Some(t);
        r[id].result = Some(match res {
            Ok(()) => "Ok".into(),
            Err(e) => format!("Err:{e}"),
        });
    }
}

fn remote<E: std::fmt::Debug>(e: E) -> ClientErr {
    ClientErr::Remote(format!("{e:?}"))
}

impl PolicyClient for GatedClient {
    type Error = ClientErr;

    async fn validate(&self, to: usize, req: ValidateRequest) -> Result<(), ClientErr> {
        let (id, h) = self.gate(to, RpcKind::Validate).await;
        let res = match h {
            Ok(h) => {
                let r = h.validate(req).await.map_err(remote);
                self.reply_gate(to, RpcKind::Validate).await;
                r
            }
            Err(e) => Err(e),
        };
        self.done(id, &res);
        res
    }

    async fn run(&self, to: usize, req: RunRequest) -> Result<(), ClientErr> {
        let (id, h) = self.gate(to, RpcKind::Run).await;
        let res = match h {
            Ok(h) => {
                let r = h.run(req).await.map_err(remote);
                self.reply_gate(to, RpcKind::Run).await;
                r
            }
            Err(e) => Err(e),
        };
        self.done(id, &res);
        res
    }

    async fn consts(&self, to: usize, req: ConstsRequest) -> Result<(), ClientErr> {
        let (id, h) = self.gate(to, RpcKind::Consts).await;
        let res = match h {
            Ok(h) => {
                let r = h.consts(req).await.map_err(remote);
                self.reply_gate(to, RpcKind::Consts).await;
                r
            }
            Err(e) => Err(e),
        };
        self.done(id, &res);
        res
    }

    async fn msg(&self, to: usize, msg: MpcMsg) -> Result<(), ClientErr> {
        self.shared.msg_calls.fetch_add(1, Ordering::SeqCst);
        let (id, h) = self.gate(to, RpcKind::Msg).await;
        let res = match h {
            Ok(h) => h.mpc_msg(msg).await.map_err(remote),
            Err(e) => Err(e),
        };
        self.done(id, &res);
        res
    }

    async fn output(&self, to: url::Url, result: Result<Literal, OutputError>) -> Result<(), ClientErr> {
        let t = self.shared.tick();
        let result = match result {
            Ok(l) => Ok(serde_json::to_value(&l).unwrap_or(Value::Null)),
            Err(e) => Err(output_err_kind(&e)),
        };
        let failed = self.shared.fail_outputs;
        let take = |after: bool| -> bool {
            let mut c = self.shared.cancel_on_output.lock().unwrap();
            match c.iter().position(|x| *x == (self.comp, self.me, after)) { Some(i) => { c.remove(i); true } None => false }
        };
        if take(false) {
            let h = self.shared.handles.lock().unwrap().get(&(self.comp, self.me)).cloned();
            if let Some(h) = h {
                let slot = self.shared.injected.clone();
                spawn_call(&self.shared, &slot, "cancel", self.comp, self.me, usize::MAX, false, h.cancel());
            }
        }
        // a real client suspends while the request is on its way; the request counts as sent from the
        // moment of the call (with an HTTP client a request whose future is dropped while it waits for the
        // answer has usually reached the destination already)
        let idx = {
            let mut o = self.shared.outputs.lock().unwrap();
            o.push(OutputRec { t, comp: self.comp, party: self.me, url: to.to_string(), result, delivery_failed: failed, t_done: t });
            o.len() - 1
        };
        tokio::task::yield_now().await;
        tokio::task::yield_now().await;
        let t_done = self.shared.tick();
        self.shared.outputs.lock().unwrap()[idx].t_done = t_done;
        if take(true) {
            let h = self.shared.handles.lock().unwrap().get(&(self.comp, self.me)).cloned();
            if let Some(h) = h {
                // poll the cancel call once right here, so that its command is queued before this
                // party's MPC task gets to queue anything else
                let mut fut = Box::pin(async move { h.cancel().await });
                let first = std::future::poll_fn(|cx| std::task::Poll::Ready(fut.as_mut().poll(cx))).await;
                let slot = self.shared.injected.clone();
                spawn_call(&self.shared, &slot, "cancel", self.comp, self.me, usize::MAX - 1, false, async move {
                    match first {
                        std::task::Poll::Ready(r) => r,
                        std::task::Poll::Pending => fut.await,
                    }
                });
            }
        }
        if failed { Err(ClientErr::Injected) } else { Ok(()) }
    }
}

pub fn output_err_kind(e: &OutputError) -> String {
    match e {
        OutputError::RequestRunError { .. } => "RequestRunError".into(),
        OutputError::SendConstsError { .. } => "SendConstsError".into(),
        OutputError::CompileError(_) => "CompileError".into(),
        OutputError::CompilePanic => "CompilePanic".into(),
        OutputError::InvalidInput(_) => "InvalidInput".into(),
        OutputError::MpcError(e) => format!("MpcError({})", crate::props::err_class(&format!("{e:?}"))),
        OutputError::InvalidOutput(_) => "InvalidOutput".into(),
        OutputError::Cancelled => "Cancelled".into(),
        _ => "Other".into(),
    }
}

// ------------------------------------------------------------------------------------------------
// scenario
// ------------------------------------------------------------------------------------------------

#[derive(Clone, Debug)]
pub enum Inject {
    /// a second schedule with the same policy
    DupSchedule { comp: usize, party: usize },
    Run { comp: usize, party: usize },
    Consts { comp: usize, party: usize, from: usize },
    /// consts carrying one (bogus) constant
    ConstsNonEmpty { comp: usize, party: usize, from: usize },
    /// the constants of the in-range party `from`, under their real names but with other values
    ConstsWrong { comp: usize, party: usize, from: usize },
    Validate { comp: usize, party: usize },
    /// the party's own leader's validate request whose caller gives up right after the request has been
    /// queued (the answer channel is closed when the state machine wants to answer)
    ValidateDropped { comp: usize, party: usize },
    /// a validate request derived from `alt_policies[alt]` (same computation, other program / leader)
    ValidateAlt { comp: usize, party: usize, alt: usize },
    MpcMsg { comp: usize, party: usize, from: usize },
    /// `count` MPC messages at once; `from` = the receiving party itself or an unknown index
    MpcMsgBurst { comp: usize, party: usize, from: usize, count: usize },
    Cancel { comp: usize, party: usize },
    /// a schedule with a different policy (index into Scenario::alt_policies) for the same computation
    AltSchedule { comp: usize, party: usize, alt: usize },
}

#[derive(Clone, Debug)]
pub enum When {
    /// at the k-th idle point (0 = before anything)
    Step(usize),
    /// at the first idle point at which the program-compile thread is alive
    DuringCompile,
    /// (cancel only) at the moment the party's output destination is being notified of the result
    DuringOutput,
    /// (cancel only) right after the notification has been delivered: the cancel command is queued
    /// before the party's MPC task can queue anything else
    AfterOutput,
    /// immediately behind the k-th action of the explorer (schedule submission, delivery of an RPC or
    /// of an MPC message), without waiting for the system to become idle: the injected command is
    /// queued right behind the command that action causes, so it meets the transient state after it
    After(usize),
}

#[derive(Clone, Debug)]
pub enum Strategy {
    /// follow the choice indices, then always take choice 0
    Script(Vec<usize>),
    Random(u64),
    /// submit the schedule with this index first, then always prefer delivering a pending coordination
    /// RPC over submitting another schedule (followers receive `validate` before their own schedule)
    RpcFirst(usize),
    /// answers of coordination RPCs (with `gate_replies`) are delivered as late as possible: schedules,
    /// requests and MPC messages all go first
    RepliesLast,
}

#[derive(Clone)]
pub struct Scenario {
    /// policies[comp][party]
    pub policies: Vec<Vec<Policy>>,
    /// concurrency budget per party
    pub concurrency: usize,
    pub strategy: Strategy,
    pub gate_msgs: bool,
    /// gate the answers of coordination RPCs as separate explorer decisions
    pub gate_replies: bool,
    /// fail the k-th issued RPC of this kind (counted per kind, over the whole scenario)
    pub fail_rpc: Option<(RpcKind, usize)>,
    pub injections: Vec<(When, Inject)>,
    /// parties whose schedule is never submitted
    pub skip_schedule: Vec<(usize, usize)>,
    pub max_steps: usize,
    /// the output destination is unreachable: every output() call returns an error
    pub fail_outputs: bool,
    pub alt_policies: Vec<Policy>,
    /// once a cancel has been injected, MPC messages sent by this party are never delivered (its peers
    /// have become unresponsive: the sender's engine stays parked in the send)
    pub hold_msgs_of_after_cancel: Option<usize>,
}

#[derive(Clone, Debug)]
pub struct CallRec {
    pub what: String,
    pub comp: usize,
    pub party: usize,
    pub t_call: u64,
    pub t_return: Option<u64>,
    pub result: Option<String>,
    pub step: usize,
    pub compile_thread_alive: bool,
}

pub struct RunRecord {
    pub schedule: Vec<CallRec>,
    pub injected: Vec<CallRec>,
    pub outputs: Vec<OutputRec>,
    pub rpcs: Vec<RpcRec>,
    /// (comp, party, finished, panicked)
    pub actors: Vec<(usize, usize, bool, bool)>,
    /// available permits per party at the end
    pub permits: Vec<usize>,
    pub msg_calls: usize,
    pub quiescent: bool,
    pub steps: usize,
    /// number of choices at each branching point
    pub branching: Vec<usize>,
    pub choices: Vec<usize>,
    pub end: String,
    pub saw_compile_thread: bool,
    pub max_open_runs: Vec<usize>,
}

fn thread_count() -> usize {
    std::fs::read_dir("/proc/self/task").map(|d| d.count()).unwrap_or(1)
}

/// Threads of earlier scenarios in this process (a compile thread that has handed over its result, the
/// workers of a dropped multi-thread runtime) may still be exiting when the next scenario starts; counted
/// into the baseline they would hide a compile thread of the new scenario. Waits (up to 2 s of real time)
/// until the process is back at the lowest thread count it has ever had between scenarios.
fn settle_threads() {
    static MIN_THREADS: std::sync::atomic::AtomicUsize = std::sync::atomic::AtomicUsize::new(usize::MAX);
    let mut n = thread_count();
    let mut waited = 0;
    while n > MIN_THREADS.load(Ordering::SeqCst) && waited < 4000 {
        std::thread::sleep(std::time::Duration::from_micros(500));
        waited += 1;
        n = thread_count();
    }
    MIN_THREADS.fetch_min(n, Ordering::SeqCst);
}

type CallSlot = Arc<Mutex<Vec<CallRec>>>;

fn spawn_call<F, E>(shared: &Arc<Shared>, slot: &CallSlot, what: &str, comp: usize, party: usize, step: usize, compile_alive: bool, fut: F)
where
    F: std::future::Future<Output = Result<(), E>> + Send + 'static,
    E: std::fmt::Debug,
{
    let t_call = shared.tick();
    let idx = {
        let mut s = slot.lock().unwrap();
        s.push(CallRec { what: what.to_string(), comp, party, t_call, t_return: None, result: None, step, compile_thread_alive: compile_alive });
        s.len() - 1
    };
    let shared = shared.clone();
    let slot = slot.clone();
    tokio::spawn(async move {
        let r = fut.await;
        let t = shared.tick();
        let mut s = slot.lock().unwrap();
        s[idx].t_return = Some(t);
        s[idx].result = Some(match r {
            Ok(()) => "Ok".to_string(),
            Err(e) => format!("Err:{}", crate::props::err_class(&format!("{e:?}").replace("PolicyStateError(", ""))),
        });
    });
}

/// Runs one scenario to quiescence on a fresh current-thread runtime with paused clock.
pub fn explore(sc: &Scenario) -> RunRecord {
    settle_threads();
    let rt = tokio::runtime::Builder::new_current_thread().enable_time().start_paused(true).build().expect("runtime");
    let base_threads = thread_count();
    rt.block_on(async move {
        let shared = Arc::new(Shared {
            clock: AtomicU64::new(0),
            handles: Mutex::new(HashMap::new()),
            pending: Mutex::new(vec![]),
            next_id: AtomicUsize::new(0),
            outputs: Mutex::new(vec![]),
            rpcs: Mutex::new(vec![]),
            msg_calls: AtomicUsize::new(0),
            gate_msgs: sc.gate_msgs,
            gate_replies: sc.gate_replies,
            fail_outputs: sc.fail_outputs,
            auto_delay_us: 0,
            auto_seed: 0,
            auto_fail: None,
            auto_kind_count: Mutex::new(HashMap::new()),
            injected: Arc::new(Mutex::new(vec![])),
            cancel_on_output: Mutex::new(sc.injections.iter().filter_map(|(w, i)| match (w, i) { (When::DuringOutput, Inject::Cancel { comp, party }) => Some((*comp, *party, false)), (When::AfterOutput, Inject::Cancel { comp, party }) => Some((*comp, *party, true)), _ => None }).collect()),
        });
        let n_parties = sc.policies.iter().map(|c| c.len()).max().unwrap_or(0);
        let sems: Vec<Arc<Semaphore>> = (0..n_parties).map(|_| Arc::new(Semaphore::new(sc.concurrency))).collect();
        let mut actors: Vec<(usize, usize, JoinHandle<()>)> = vec![];
        for (c, pols) in sc.policies.iter().enumerate() {
            for p in 0..pols.len() {
                let (state, handle) = PolicyState::new(GatedBuilder { shared: shared.clone(), comp: c, me: p }, sems[p].clone());
                shared.handles.lock().unwrap().insert((c, p), handle);
                actors.push((c, p, tokio::spawn(state.start())));
            }
        }
        let schedule: CallSlot = Arc::new(Mutex::new(vec![]));
        let injected: CallSlot = shared.injected.clone();
        let mut to_submit: Vec<(usize, usize)> = vec![];
        for (c, pols) in sc.policies.iter().enumerate() {
            for p in 0..pols.len() {
                if !sc.skip_schedule.contains(&(c, p)) {
                    to_submit.push((c, p));
                }
            }
        }
        let mut rng = ChaCha8Rng::seed_from_u64(match &sc.strategy { Strategy::Random(s) => *s, _ => 0 });
        let mut script_pos = 0usize;
        let mut branching = vec![];
        let mut choices = vec![];
        let mut step = 0usize;
        let mut kind_counter: HashMap<RpcKind, usize> = HashMap::new();
        let mut injections = sc.injections.clone();
        let mut saw_compile = false;
        let mut cancel_injected = false;
        let mut end = "quiescent".to_string();
        let mut quiescent = false;
        let mut stall = 0usize;
        loop {
            // exact idleness: the paused clock only advances when no task can run
            tokio::time::sleep(std::time::Duration::from_secs(1)).await;
            let extra_threads = thread_count() > base_threads;
            if extra_threads {
                saw_compile = true;
            }
            // injections due now
            let mut k = 0;
            while k < injections.len() {
                let due = match injections[k].0 {
                    When::Step(s) => s == step,
                    When::DuringCompile => extra_threads,
                    When::After(_) | When::DuringOutput | When::AfterOutput => false,
                };
                if due {
                    let (_, inj) = injections.remove(k);
                    if matches!(inj, Inject::Cancel { .. }) {
                        cancel_injected = true;
                    }
                    do_inject(&shared, &injected, &inj, sc, step, extra_threads);
                } else {
                    k += 1;
                }
            }
            if step >= sc.max_steps {
                end = "step limit".into();
                break;
            }
            // enabled actions
            let (coord, msgs): (Vec<usize>, Vec<usize>) = {
                let p = shared.pending.lock().unwrap();
                let mut c: Vec<usize> = p.iter().filter(|x| x.kind != RpcKind::Msg).map(|x| x.id).collect();
                let held = |x: &Pending| cancel_injected && sc.hold_msgs_of_after_cancel == Some(x.from) && x.kind == RpcKind::Msg;
                let mut m: Vec<usize> = p.iter().filter(|x| x.kind == RpcKind::Msg && !held(x)).map(|x| x.id).collect();
                c.sort();
                m.sort();
                (c, m)
            };
            let n_choices = to_submit.len() + coord.len();
            if n_choices == 0 && msgs.is_empty() {
                if extra_threads {
                    // the compile thread is still working: wait in real time
                    std::thread::sleep(std::time::Duration::from_micros(300));
                    stall += 1;
                    if stall > 200_000 {
                        end = "watchdog: compile thread did not finish".into();
                        break;
                    }
                    continue;
                }
                // give spawned calls one more idle round, then declare quiescence
                let before = shared.clock.load(Ordering::SeqCst);
                tokio::time::sleep(std::time::Duration::from_secs(1)).await;
                if shared.clock.load(Ordering::SeqCst) == before && shared.pending.lock().unwrap().iter().all(|x| cancel_injected && sc.hold_msgs_of_after_cancel == Some(x.from) && x.kind == RpcKind::Msg) && thread_count() <= base_threads {
                    if injections.iter().any(|(w, _)| matches!(w, When::Step(s) | When::After(s) if *s > step)) {
                        // remaining step-based injections fire at quiescence
                        step += 1;
                        let rest: Vec<_> = injections.drain(..).collect();
                        for (_, inj) in rest {
                            do_inject(&shared, &injected, &inj, sc, step, false);
                        }
                        continue;
                    }
                    quiescent = true;
                    break;
                }
                continue;
            }
            if let Strategy::RpcFirst(_) = &sc.strategy {
                if step > 0 && coord.is_empty() && msgs.is_empty() && extra_threads {
                    // wait for the compile thread instead of submitting the next schedule
                    std::thread::sleep(std::time::Duration::from_micros(300));
                    stall += 1;
                    if stall > 200_000 {
                        end = "watchdog: compile thread did not finish".into();
                        break;
                    }
                    continue;
                }
            }
            stall = 0;
            step += 1;
            // pick
            let pick_msg_first = match &sc.strategy {
                Strategy::Script(_) | Strategy::RpcFirst(_) => !msgs.is_empty(),
                Strategy::RepliesLast => {
                    let p = shared.pending.lock().unwrap();
                    let non_reply = p.iter().any(|x| x.kind != RpcKind::Msg && x.kind != RpcKind::Reply);
                    !msgs.is_empty() && to_submit.is_empty() && !non_reply
                }
                Strategy::Random(_) => !msgs.is_empty() && (n_choices == 0 || rng.random_bool(0.6)),
            };
            if pick_msg_first {
                let id = match &sc.strategy {
                    Strategy::Script(_) | Strategy::RpcFirst(_) | Strategy::RepliesLast => msgs[0],
                    // at most one message per (from, to) is outstanding, so any pending message may go first
                    Strategy::Random(_) => msgs[rng.random_range(0..msgs.len())],
                };
                release(&shared, id, Release::Deliver);
                fire_after(&shared, &injected, &mut injections, sc, step, extra_threads);
                continue;
            }
            branching.push(n_choices);
            let choice = match &sc.strategy {
                Strategy::Script(s) => {
                    let c = s.get(script_pos).copied().unwrap_or(0);
                    script_pos += 1;
                    // scripted choices beyond the available ones wrap around (fixed scripts of
                    // C16); the DFS of C13 only generates prefixes that exist
                    c % n_choices
                }
                Strategy::Random(_) => rng.random_range(0..n_choices),
                Strategy::RepliesLast => {
                    if !to_submit.is_empty() {
                        0
                    } else {
                        let p = shared.pending.lock().unwrap();
                        let pos = coord.iter().position(|id| p.iter().any(|x| x.id == *id && x.kind != RpcKind::Reply));
                        to_submit.len() + pos.unwrap_or(0)
                    }
                }
                Strategy::RpcFirst(first) => {
                    if choices.is_empty() { first % n_choices } else if !coord.is_empty() { to_submit.len() } else { 0 }
                }
            };
            choices.push(choice);
            if choice < to_submit.len() {
                let (c, p) = to_submit.remove(choice);
                let h = shared.handles.lock().unwrap().get(&(c, p)).cloned().expect("handle");
                let pol = sc.policies[c][p].clone();
                spawn_call(&shared, &schedule, "schedule", c, p, step, extra_threads, async move { h.schedule(pol).await });
            } else {
                let id = coord[choice - to_submit.len()];
                let kind = shared.pending.lock().unwrap().iter().find(|x| x.id == id).map(|x| x.kind).unwrap_or(RpcKind::Msg);
                let cnt = kind_counter.entry(kind).or_insert(0);
                let fail = sc.fail_rpc == Some((kind, *cnt));
                *cnt += 1;
                release(&shared, id, if fail { Release::Fail } else { Release::Deliver });
            }
            fire_after(&shared, &injected, &mut injections, sc, step, extra_threads);
        }
        // end state
        let mut actor_state = vec![];
        for (c, p, h) in actors {
            let finished = h.is_finished();
            let mut panicked = false;
            if finished {
                if let Err(e) = h.await {
                    panicked = e.is_panic();
                }
            } else {
                h.abort();
            }
            actor_state.push((c, p, finished, panicked));
        }
        let permits: Vec<usize> = sems.iter().map(|s| s.available_permits()).collect();
        let rpcs = shared.rpcs.lock().unwrap().clone();
        let outputs = shared.outputs.lock().unwrap().clone();
        // concurrency of leader runs, from RPC-level observations only: interval of computation x at
        // its leader = [first Run RPC issued ... last activity (rpc / output) of that leader for x]
        let mut max_open = vec![0usize; n_parties];
        for p in 0..n_parties {
            let mut ivs: Vec<(u64, u64)> = vec![];
            for (c, pols) in sc.policies.iter().enumerate() {
                let Some(pol) = pols.get(p) else { continue };
                if pol.leader != p {
                    continue;
                }
                let start = rpcs.iter().filter(|r| r.comp == c && r.from == p && r.kind == RpcKind::Run && r.fate != "unused").map(|r| r.t_issue).min();
                let Some(start) = start else { continue };
                let mut last = start;
                // (answers are recorded with the answering party as `from`, but at the time the caller saw
                // them - possibly an error from a state machine that has long stopped - so they do not count)
                for r in rpcs.iter().filter(|r| r.comp == c && r.from == p && r.fate != "unused" && r.kind != RpcKind::Reply) {
                    last = last.max(r.t_issue);
                }
                for o in outputs.iter().filter(|o| o.comp == c && o.party == p) {
                    last = last.max(o.t);
                }
                ivs.push((start, last));
            }
            let mut pts: Vec<(u64, i32)> = vec![];
            for (a, b) in &ivs {
                pts.push((*a, 1));
                pts.push((*b + 1, -1));
            }
            pts.sort();
            let mut cur = 0i32;
            for (_, d) in pts {
                cur += d;
                max_open[p] = max_open[p].max(cur.max(0) as usize);
            }
        }
        RunRecord {
            schedule: schedule.lock().unwrap().clone(),
            injected: injected.lock().unwrap().clone(),
            outputs,
            rpcs,
            actors: actor_state,
            permits,
            msg_calls: shared.msg_calls.load(Ordering::SeqCst),
            quiescent,
            steps: step,
            branching,
            choices,
            end,
            saw_compile_thread: saw_compile,
            max_open_runs: max_open,
        }
    })
}

/// Stress mode: the same scenario on a multi-thread runtime with real (pseudo-random, sub-millisecond)
/// delays in every RPC; injections with `When::Step(k)` fire after k * 700 microseconds. The run is
/// judged only if it reaches quiescence (no event for 400 ms, no pending work) before the watchdog;
/// otherwise it is inconclusive.
pub fn explore_mt(sc: &Scenario, seed: u64) -> RunRecord {
    settle_threads();
    let rt = tokio::runtime::Builder::new_multi_thread().worker_threads(4).enable_time().build().expect("runtime");
    std::thread::sleep(std::time::Duration::from_millis(5));
    let base_threads = thread_count();
    let rec = rt.block_on(async move {
        let shared = Arc::new(Shared {
            clock: AtomicU64::new(0),
            handles: Mutex::new(HashMap::new()),
            pending: Mutex::new(vec![]),
            next_id: AtomicUsize::new(0),
            outputs: Mutex::new(vec![]),
            rpcs: Mutex::new(vec![]),
            msg_calls: AtomicUsize::new(0),
            gate_msgs: false,
            gate_replies: false,
            fail_outputs: sc.fail_outputs,
            auto_delay_us: 900,
            auto_seed: seed,
            auto_fail: sc.fail_rpc,
            auto_kind_count: Mutex::new(HashMap::new()),
            injected: Arc::new(Mutex::new(vec![])),
            cancel_on_output: Mutex::new(vec![]),
        });
        let n_parties = sc.policies.iter().map(|c| c.len()).max().unwrap_or(0);
        let sems: Vec<Arc<Semaphore>> = (0..n_parties).map(|_| Arc::new(Semaphore::new(sc.concurrency))).collect();
        let mut actors: Vec<(usize, usize, JoinHandle<()>)> = vec![];
        for (c, pols) in sc.policies.iter().enumerate() {
            for p in 0..pols.len() {
                let (state, handle) = PolicyState::new(GatedBuilder { shared: shared.clone(), comp: c, me: p }, sems[p].clone());
                shared.handles.lock().unwrap().insert((c, p), handle);
                actors.push((c, p, tokio::spawn(state.start())));
            }
        }
        let schedule: CallSlot = Arc::new(Mutex::new(vec![]));
        let injected: CallSlot = shared.injected.clone();
        let mut rng = ChaCha8Rng::seed_from_u64(seed);
        // schedules after small random delays
        let mut order: Vec<(usize, usize)> = vec![];
        for (c, pols) in sc.policies.iter().enumerate() {
            for p in 0..pols.len() {
                if !sc.skip_schedule.contains(&(c, p)) {
                    order.push((c, p));
                }
            }
        }
        for i in (1..order.len()).rev() {
            let j = rng.random_range(0..=i);
            order.swap(i, j);
        }
        let start = std::time::Instant::now();
        let mut timeline: Vec<(u64, Option<(usize, usize)>, Option<Inject>)> = vec![];
        for (c, p) in order {
            timeline.push((rng.random_range(0..1500), Some((c, p)), None));
        }
        for (w, inj) in &sc.injections {
            let at = match w { When::Step(k) | When::After(k) => *k as u64 * 700 + rng.random_range(0..600), When::DuringCompile | When::DuringOutput | When::AfterOutput => rng.random_range(2000..6000) };
            timeline.push((at, None, Some(inj.clone())));
        }
        timeline.sort_by_key(|x| x.0);
        for (at, sched, inj) in timeline {
            let now = start.elapsed().as_micros() as u64;
            if at > now {
                tokio::time::sleep(std::time::Duration::from_micros(at - now)).await;
            }
            let extra = thread_count() > base_threads;
            if let Some((c, p)) = sched {
                let h = shared.handles.lock().unwrap().get(&(c, p)).cloned().expect("handle");
                let pol = sc.policies[c][p].clone();
                spawn_call(&shared, &schedule, "schedule", c, p, 0, extra, async move { h.schedule(pol).await });
            }
            if let Some(inj) = inj {
                do_inject(&shared, &injected, &inj, sc, (at / 700) as usize, extra);
            }
        }
        // quiescence: no event for 400 ms, every spawned call returned or its actor gone
        let mut quiescent = false;
        let mut last = shared.clock.load(Ordering::SeqCst);
        let mut still = 0;
        let watchdog = std::time::Instant::now();
        while watchdog.elapsed().as_secs() < 60 {
            tokio::time::sleep(std::time::Duration::from_millis(20)).await;
            let now = shared.clock.load(Ordering::SeqCst);
            if now == last && thread_count() <= base_threads {
                still += 1;
                if still >= 20 {
                    quiescent = true;
                    break;
                }
            } else {
                still = 0;
                last = now;
            }
        }
        let mut actor_state = vec![];
        for (c, p, h) in actors {
            let finished = h.is_finished();
            let mut panicked = false;
            if finished {
                if let Err(e) = h.await {
                    panicked = e.is_panic();
                }
            } else {
                h.abort();
            }
            actor_state.push((c, p, finished, panicked));
        }
        let permits: Vec<usize> = sems.iter().map(|s| s.available_permits()).collect();
        RunRecord {
            schedule: schedule.lock().unwrap().clone(),
            injected: injected.lock().unwrap().clone(),
            outputs: shared.outputs.lock().unwrap().clone(),
            rpcs: shared.rpcs.lock().unwrap().clone(),
            actors: actor_state,
            permits,
            msg_calls: shared.msg_calls.load(Ordering::SeqCst),
            quiescent,
            steps: 0,
            branching: vec![],
            choices: vec![],
            end: if quiescent { "quiescent (multi-thread)".into() } else { "watchdog (multi-thread)".into() },
            saw_compile_thread: false,
            max_open_runs: vec![0; n_parties],
        }
    });
    rt.shutdown_timeout(std::time::Duration::from_millis(200));
    rec
}

fn release(shared: &Arc<Shared>, id: usize, how: Release) {
    let p = {
        let mut g = shared.pending.lock().unwrap();
        g.iter().position(|x| x.id == id).map(|i| g.remove(i))
    };
    if let Some(p) = p {
        let t = shared.tick();
        {
            let mut r = shared.rpcs.lock().unwrap();
            r[id].t_release = Some(t);
            r[id].fate = if matches!(how, Release::Fail) { "failed" } else { "delivered" };
        }
        let _ = p.gate.send(how);
    }
}

fn fire_after(shared: &Arc<Shared>, slot: &CallSlot, injections: &mut Vec<(When, Inject)>, sc: &Scenario, step: usize, compile_alive: bool) {
    let mut k = 0;
    while k < injections.len() {
        if matches!(injections[k].0, When::After(s) if s == step) {
            let (_, inj) = injections.remove(k);
            do_inject(shared, slot, &inj, sc, step, compile_alive);
        } else {
            k += 1;
        }
    }
}

fn do_inject(shared: &Arc<Shared>, slot: &CallSlot, inj: &Inject, sc: &Scenario, step: usize, compile_alive: bool) {
    let get = |c: usize, p: usize| shared.handles.lock().unwrap().get(&(c, p)).cloned();
    match inj.clone() {
        Inject::DupSchedule { comp, party } => {
            if let Some(h) = get(comp, party) {
                let pol = sc.policies[comp][party].clone();
                spawn_call(shared, slot, "dup-schedule", comp, party, step, compile_alive, async move { h.schedule(pol).await });
            }
        }
        Inject::Run { comp, party } => {
            if let Some(h) = get(comp, party) {
                let id = sc.policies[comp][party].computation_id;
                spawn_call(shared, slot, "run", comp, party, step, compile_alive, async move { h.run(RunRequest { computation_id: id }).await });
            }
        }
        Inject::Consts { comp, party, from } => {
            if let Some(h) = get(comp, party) {
                let id = sc.policies[comp][party].computation_id;
                let name = if from < sc.policies[comp].len() { "consts".to_string() } else { format!("consts(from={})", if from == usize::MAX { "usize::MAX".to_string() } else { from.to_string() }) };
                spawn_call(shared, slot, &name, comp, party, step, compile_alive, async move {
                    h.consts(ConstsRequest { from, computation_id: id, consts: Default::default() }).await
                });
            }
        }
        Inject::ConstsWrong { comp, party, from } => {
            if let Some(h) = get(comp, party) {
                let id = sc.policies[comp][party].computation_id;
                let mut consts: polytune_server_core::Consts = Default::default();
                for (k, v) in sc.policies[comp][from].constants.iter() {
                    let w = match v {
                        Literal::NumUnsigned(x, ty) => Literal::NumUnsigned((*x ^ 0xff) & 0xff, *ty),
                        other => other.clone(),
                    };
                    consts.insert(k.clone(), w);
                }
                spawn_call(shared, slot, "consts-wrong", comp, party, step, compile_alive, async move { h.consts(ConstsRequest { from, computation_id: id, consts }).await });
            }
        }
        Inject::ConstsNonEmpty { comp, party, from } => {
            if let Some(h) = get(comp, party) {
                let id = sc.policies[comp][party].computation_id;
                let name = format!("consts-nonempty(from={})", if from == usize::MAX { "usize::MAX".to_string() } else { from.to_string() });
                spawn_call(shared, slot, &name, comp, party, step, compile_alive, async move {
                    let mut consts: polytune_server_core::Consts = Default::default();
                    consts.insert("BOGUS".to_string(), Literal::NumUnsigned(1, polytune::garble_lang::token::UnsignedNumType::U8));
                    h.consts(ConstsRequest { from, computation_id: id, consts }).await
                });
            }
        }
        Inject::ValidateDropped { comp, party } => {
            if let Some(h) = get(comp, party) {
                let pol = sc.policies[comp][party].clone();
                let t_call = shared.tick();
                slot.lock().unwrap().push(CallRec { what: "validate-dropped".to_string(), comp, party, t_call, t_return: None, result: None, step, compile_thread_alive: compile_alive });
                let mut fut = Box::pin(async move { h.validate(ValidateRequest::from(&pol)).await });
                let mut cx = std::task::Context::from_waker(std::task::Waker::noop());
                let _ = std::future::Future::poll(fut.as_mut(), &mut cx);
                drop(fut);
            }
        }
        Inject::ValidateAlt { comp, party, alt } => {
            if let (Some(h), Some(pol)) = (get(comp, party), sc.alt_policies.get(alt).cloned()) {
                spawn_call(shared, slot, "validate-alt", comp, party, step, compile_alive, async move { h.validate(ValidateRequest::from(&pol)).await });
            }
        }
        Inject::Validate { comp, party } => {
            if let Some(h) = get(comp, party) {
                let pol = sc.policies[comp][party].clone();
                spawn_call(shared, slot, "validate", comp, party, step, compile_alive, async move { h.validate(ValidateRequest::from(&pol)).await });
            }
        }
        Inject::MpcMsgBurst { comp, party, from, count } => {
            if let Some(h) = get(comp, party) {
                let name = if from == party { "mpc_msg-self-burst".to_string() } else { format!("mpc_msg(from={from})") };
                for _ in 0..count {
                    let h = h.clone();
                    spawn_call(shared, slot, &name, comp, party, step, compile_alive, async move { h.mpc_msg(MpcMsg { from, data: vec![9, 9, 9] }).await });
                }
            }
        }
        Inject::MpcMsg { comp, party, from } => {
            if let Some(h) = get(comp, party) {
                spawn_call(shared, slot, &format!("mpc_msg(from={})", if from == usize::MAX { "usize::MAX".to_string() } else { from.to_string() }), comp, party, step, compile_alive, async move {
                    h.mpc_msg(MpcMsg { from, data: vec![1, 2, 3] }).await
                });
            }
        }
        Inject::Cancel { comp, party } => {
            if let Some(h) = get(comp, party) {
                spawn_call(shared, slot, "cancel", comp, party, step, compile_alive, h.cancel());
            }
        }
        Inject::AltSchedule { comp, party, alt } => {
            if let (Some(h), Some(pol)) = (get(comp, party), sc.alt_policies.get(alt).cloned()) {
                spawn_call(shared, slot, "alt-schedule", comp, party, step, compile_alive, async move { h.schedule(pol).await });
            }
        }
    }
}

// ------------------------------------------------------------------------------------------------
// program library with native references
// ------------------------------------------------------------------------------------------------

#[derive(Clone)]
pub struct Program {
    pub name: &'static str,
    pub parties: usize,
    pub source: &'static str,
    /// constants per party: name -> value
    pub consts: Vec<Vec<(&'static str, u64)>>,
    /// reference on (inputs, constants flattened in party order)
    pub reference: fn(&[u64], &[u64]) -> u64,
    pub out_ty: &'static str,
}

pub fn programs() -> Vec<Program> {
    vec![
        Program { name: "xor2", parties: 2, source: "pub fn main(a: u8, b: u8) -> u8 { a ^ b }", consts: vec![vec![], vec![]], reference: |i, _| (i[0] ^ i[1]) & 0xff, out_ty: "U8" },
        Program { name: "gt2", parties: 2, source: "pub fn main(a: u8, b: u8) -> bool { a > b }", consts: vec![vec![], vec![]], reference: |i, _| (i[0] > i[1]) as u64, out_ty: "bool" },
        Program { name: "and-const-one", parties: 2, source: "const X: u8 = PARTY_0::X;\npub fn main(a: u8, b: u8) -> u8 { (a ^ b) & X }", consts: vec![vec![("X", 0x5a)], vec![]], reference: |i, c| (i[0] ^ i[1]) & c[0] & 0xff, out_ty: "U8" },
        Program { name: "const-all-2", parties: 2, source: "const X: u8 = PARTY_0::X;\nconst Y: u8 = PARTY_1::Y;\npub fn main(a: u8, b: u8) -> u8 { (a & X) ^ (b & Y) }", consts: vec![vec![("X", 0x3c)], vec![("Y", 0xf1)]], reference: |i, c| ((i[0] & c[0]) ^ (i[1] & c[1])) & 0xff, out_ty: "U8" },
        Program { name: "select3", parties: 3, source: "pub fn main(a: u8, b: u8, c: u8) -> u8 { if a > b { c } else { a ^ b } }", consts: vec![vec![], vec![], vec![]], reference: |i, _| if i[0] > i[1] { i[2] } else { (i[0] ^ i[1]) & 0xff }, out_ty: "U8" },
        Program { name: "const-some-3", parties: 3, source: "const Y: u8 = PARTY_1::Y;\npub fn main(a: u8, b: u8, c: u8) -> u8 { (a ^ b ^ c) & Y }", consts: vec![vec![], vec![("Y", 0x77)], vec![]], reference: |i, c| (i[0] ^ i[1] ^ i[2]) & c[0] & 0xff, out_ty: "U8" },
        Program { name: "const-all-3", parties: 3, source: "const X: u8 = PARTY_0::X;\nconst Y: u8 = PARTY_1::Y;\nconst Z: u8 = PARTY_2::Z;\npub fn main(a: u8, b: u8, c: u8) -> u8 { (a & X) ^ (b & Y) ^ (c & Z) }", consts: vec![vec![("X", 0x0f)], vec![("Y", 0xf0)], vec![("Z", 0x99)]], reference: |i, c| ((i[0] & c[0]) ^ (i[1] & c[1]) ^ (i[2] & c[2])) & 0xff, out_ty: "U8" },
        // party 2 supplies a constant that the program does not depend on
        Program { name: "const-unused-3", parties: 3, source: "const X: u8 = PARTY_0::X;\nconst Y: u8 = PARTY_1::Y;\npub fn main(a: u8, b: u8, c: u8) -> u8 { (a & X) ^ (b & Y) ^ c }", consts: vec![vec![("X", 0x0f)], vec![("Y", 0xf0)], vec![("UNUSED", 0x42)]], reference: |i, c| ((i[0] & c[0]) ^ (i[1] & c[1]) ^ i[2]) & 0xff, out_ty: "U8" },
    ]
}

/// Programs whose result has zero bits (C13 only: the result is still a result).
pub fn zero_bit_programs() -> Vec<Program> {
    vec![
        Program { name: "empty-array-output", parties: 2, source: "const N: usize = PARTY_0::N;\npub fn main(a: u8, b: u8) -> [u8; N] { [a ^ b; N] }", consts: vec![vec![("N", 0)], vec![]], reference: |_, _| 0, out_ty: "empty-array" },
    ]
}

/// A program whose compilation takes long enough for the compile window to be observable.
pub fn heavy_program() -> Program {
    Program {
        name: "heavy-compile",
        parties: 2,
        source: "pub fn main(a: [u8; 24], b: [u8; 24]) -> bool {\n    let mut r: bool = false;\n    for x in a {\n        for y in b {\n            r = r ^ (x == y);\n        }\n    }\n    r\n}",
        consts: vec![vec![], vec![]],
        reference: |_, _| 0,
        out_ty: "bool",
    }
}

pub fn policy_for(prog: &Program, comp_id: u128, party: usize, leader: usize, input: u64, output: bool) -> Policy {
    let participants: Vec<String> = (0..prog.parties).map(|p| format!("http://party{p}.invalid:8000/")).collect();
    let consts: serde_json::Map<String, Value> = prog.consts[party].iter().map(|(k, v)| (k.to_string(), json!({"NumUnsigned": [v, if prog.out_ty == "empty-array" { "Usize" } else { "U8" }]}))).collect();
    let input_lit = if prog.name == "heavy-compile" {
        json!({"Array": (0..24).map(|i| json!({"NumUnsigned": [(input + i * 7) % 256, "U8"]})).collect::<Vec<_>>()})
    } else {
        json!({"NumUnsigned": [input, "U8"]})
    };
    let v = json!({
        "computation_id": uuid::Uuid::from_u128(comp_id).to_string(),
        "participants": participants,
        "program": prog.source,
        "leader": leader,
        "party": party,
        "input": input_lit,
        "output": if output { json!(format!("http://out{party}.invalid/output")) } else { Value::Null },
        "constants": consts,
    });
    serde_json::from_value(v).expect("policy")
}

pub fn expected_literal(prog: &Program, inputs: &[u64]) -> Value {
    let consts: Vec<u64> = prog.consts.iter().flatten().map(|(_, v)| *v).collect();
    let r = (prog.reference)(inputs, &consts);
    if prog.out_ty == "bool" {
        if r != 0 { json!("True") } else { json!("False") }
    } else if prog.out_ty == "unit" {
        json!({"Tuple": []})
    } else if prog.out_ty == "empty-array" {
        json!({"Array": []})
    } else {
        json!({"NumUnsigned": [r, prog.out_ty]})
    }
}

pub fn record_json(r: &RunRecord) -> Value {
    let call = |c: &CallRec| json!({"what": c.what, "comp": c.comp, "party": c.party, "t_call": c.t_call, "t_return": c.t_return, "result": c.result, "step": c.step, "compile_thread_alive": c.compile_thread_alive});
    json!({
        "schedule": r.schedule.iter().map(call).collect::<Vec<_>>(),
        "injected": r.injected.iter().map(call).collect::<Vec<_>>(),
        "outputs": r.outputs.iter().map(|o| json!({"t": o.t, "comp": o.comp, "party": o.party, "result": match &o.result { Ok(v) => json!({"Ok": v}), Err(e) => json!({"Err": e}) }, "delivery_failed": o.delivery_failed, "t_done": o.t_done})).collect::<Vec<_>>(),
        "coordination_rpcs": r.rpcs.iter().filter(|x| x.kind != RpcKind::Msg && x.fate != "unused").map(|x| json!({"t_issue": x.t_issue, "t_release": x.t_release, "t_done": x.t_done, "comp": x.comp, "from": x.from, "to": x.to, "kind": format!("{:?}", x.kind), "fate": x.fate, "result": x.result})).collect::<Vec<_>>(),
        "mpc_msg_rpcs": r.rpcs.iter().filter(|x| x.kind == RpcKind::Msg && x.fate != "unused").count(),
        "actors": r.actors.iter().map(|(c, p, f, pa)| json!({"comp": c, "party": p, "stopped": f, "panicked": pa})).collect::<Vec<_>>(),
        "permits_available": r.permits,
        "quiescent": r.quiescent,
        "steps": r.steps,
        "choices": r.choices,
        "branching": r.branching,
        "end": r.end,
        "saw_compile_thread": r.saw_compile_thread,
        "max_open_leader_runs": r.max_open_runs,
    })
}
