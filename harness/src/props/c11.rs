//! C11 - OT extension delivers exactly the correlated message for every length.
use polytune::bench_reexports::{Block, kos_ot_receiver, kos_ot_sender};
use rand::{Rng, SeedableRng};
use rand_chacha::{ChaCha8Rng, ChaCha20Rng};
use serde_json::{Value, json};

use crate::report::Report;
use crate::runner::{parallel_for, threads};
use crate::sim::{self, Outcome, PartyFut, RunEnd, SimCfg, SimChan};

type R = Result<(Vec<u128>, Vec<u128>), String>;

struct Out {
    len: usize,
    order: &'static str,
    choice: &'static str,
    end: RunEnd,
    sig: Option<String>,
    sample: Value,
}

fn one(i: usize, lens: &[usize], seed: u64) -> Out {
    let len = lens[i % lens.len()];
    let variant = i / lens.len();
    let order = if variant % 2 == 0 { "sender-then-receiver" } else { "receiver-then-sender" };
    let choice = ["random", "all-0", "all-1", "alternating"][(variant / 2 + i) % 4];
    let mut rng = ChaCha8Rng::seed_from_u64(seed ^ 0xc11 ^ (i as u64).wrapping_mul(0x9e3779b97f4a7c15));
    let mk_choice = |rng: &mut ChaCha8Rng| -> Vec<bool> {
        (0..len).map(|j| match choice { "all-0" => false, "all-1" => true, "alternating" => j % 2 == 0, _ => rng.random() }).collect()
    };
    // two sessions: in the first A sends, in the second B sends (or the other way round)
    let delta_a: Vec<[u8; 16]> = (0..len).map(|_| rng.random()).collect();
    let delta_b: Vec<[u8; 16]> = (0..len).map(|j| if j % 3 == 0 { [0u8; 16] } else { rng.random() }).collect();
    let c_a = mk_choice(&mut rng);
    let c_b = mk_choice(&mut rng);
    // the choice bits are handed over as a window of a larger buffer (not necessarily starting at an
    // allocation / word boundary)
    let off_a = (i / 3) % 8;
    let off_b = (i / 5) % 8;
    let window = |c: &Vec<bool>, off: usize, rng: &mut ChaCha8Rng| -> Vec<bool> {
        let mut b: Vec<bool> = (0..off).map(|_| rng.random()).collect();
        b.extend_from_slice(c);
        b.extend((0..(8 - off)).map(|_| rng.random::<bool>()));
        b
    };
    let buf_a = window(&c_a, off_a, &mut rng);
    let buf_b = window(&c_b, off_b, &mut rng);
    let session_seed: [u8; 32] = rng.random();
    let (net, chans) = SimChan::new_set(2, if i % 3 == 0 { Some(1) } else { None });
    let a_first = order == "sender-then-receiver";
    let res = {
        let mut futs: Vec<PartyFut<'_, R>> = vec![];
        for p in 0..2usize {
            let ch = &chans[p];
            let (my_delta, my_choice) = if p == 0 { (&delta_a, &buf_a[off_a..off_a + len]) } else { (&delta_b, &buf_b[off_b..off_b + len]) };
            futs.push(Box::pin(async move {
                let mut shared = ChaCha20Rng::from_seed(session_seed);
                let deltas: Vec<Block> = my_delta.iter().map(|d| Block::from(*d)).collect();
                let send_first = (p == 0) == a_first;
                if send_first {
                    let s = kos_ot_sender(ch, &deltas, 1 - p, &mut shared).await.map_err(|e| format!("{e:?}"))?;
                    let r = kos_ot_receiver(ch, my_choice, 1 - p, &mut shared).await.map_err(|e| format!("{e:?}"))?;
                    Ok((s, r))
                } else {
                    let r = kos_ot_receiver(ch, my_choice, 1 - p, &mut shared).await.map_err(|e| format!("{e:?}"))?;
                    let s = kos_ot_sender(ch, &deltas, 1 - p, &mut shared).await.map_err(|e| format!("{e:?}"))?;
                    Ok((s, r))
                }
            }));
        }
        sim::run(&net, futs, &SimCfg { sched: if i % 2 == 0 { sim::SchedKind::RoundRobin } else { sim::SchedKind::Random }, seed: seed ^ i as u64, max_steps: 10_000_000 })
    };
    let mut sig = None;
    let be = |d: &[u8; 16]| u128::from_be_bytes(*d);
    match (&res.outcomes[0], &res.outcomes[1]) {
        (Outcome::Done(Ok((s_a, r_a))), Outcome::Done(Ok((s_b, r_b)))) => {
            if s_a.len() != len || r_a.len() != len || s_b.len() != len || r_b.len() != len {
                sig = Some("OT result vector does not have the requested length".to_string());
            } else {
                for j in 0..len {
                    // B received from A's sending session with choice c_b; A received from B's with c_a
                    if r_b[j] != s_a[j] ^ if c_b[j] { be(&delta_a[j]) } else { 0 } || r_a[j] != s_b[j] ^ if c_a[j] { be(&delta_b[j]) } else { 0 } {
                        sig = Some(format!("receiver output is not zero-message ^ (choice & correlation) ({order})"));
                        break;
                    }
                }
            }
        }
        (a, b) => {
            if res.end == RunEnd::AllFinished || res.end == RunEnd::Stuck {
                let d = |o: &Outcome<R>| match o { Outcome::Done(Ok(_)) => "Ok".to_string(), Outcome::Done(Err(e)) => format!("Err:{}", crate::props::err_class(e)), Outcome::Panic(_, l) => format!("Panic@{l}"), _ => "Unfinished".into() };
                sig = Some(format!("honest OT sessions did not complete ({order}): {} / {}", d(a), d(b)));
            }
        }
    }
    let msgs = net.lock().map(|g| g.msgs.len()).unwrap_or(0);
    let sample = json!({"length": len, "order": order, "choice_vector": choice, "messages": msgs, "len_mod_8": len % 8, "len_mod_128": len % 128});
    Out { len, order, choice, end: res.end, sig, sample }
}

pub fn lengths(thorough: bool) -> Vec<usize> {
    let mut v: Vec<usize> = if thorough { (1..=4096).collect() } else { (1..=640).collect() };
    if !thorough {
        for k in 80..=512 {
            for d in [8 * k - 1, 8 * k, 8 * k + 1] {
                if k % 4 == 3 || k % 16 == 0 {
                    v.push(d);
                }
            }
        }
        for k in 3..=32 {
            v.extend([128 * k - 1, 128 * k, 128 * k + 1]);
        }
    }
    v.retain(|x| *x >= 1 && *x <= 4097);
    v.sort();
    v.dedup();
    v
}

pub fn run(tier: &str, seed: u64) -> i32 {
    let thorough = tier == "thorough";
    let mut rep = Report::new("C11", tier, seed, "exploration");
    rep.rule = "correlated KOS OT over a simulated channel: for every length (1..300 and 8k+-1, 128k+-1 up to 4097 in quick; every length 1..4096 in thorough) two back-to-back sessions on one channel sharing one session RNG, in both orders (sender-then-receiver, receiver-then-sender), choice vectors all-0 / all-1 / alternating / random handed over as windows of a larger buffer at byte offsets 0..7, per-index distinct correlations incl. zero. Oracle: both result vectors have the requested length and recv[i] == send0[i] ^ (c[i] ? correlation[i] : 0) with the big-endian block convention. distinct = (length, order, choice class); every case is non-trivial".into();
    rep.assumptions = vec!["block_to_u128 big-endian convention as used for delta".into()];
    let lens = lengths(thorough);
    let total = lens.len() * if thorough { 4 } else { 3 };
    let outs = parallel_for(total, threads(), |i| one(i, &lens, seed));
    for o in outs {
        rep.evaluations += 1;
        match &o.end {
            RunEnd::HarnessError(e) => { rep.harness_error(e.clone()); continue; }
            RunEnd::StepLimit => { rep.inconclusive("step limit"); continue; }
            _ => {}
        }
        rep.distinct.insert(format!("len={} {} {}", o.len, o.order, o.choice));
        match o.sig {
            Some(s) => rep.violation(s, o.sample),
            None => { if rep.evaluations % 301 == 1 { rep.sample(o.sample) } }
        }
    }
    rep.set("lengths", json!(lens.len()));
    rep.finish()
}
