//! Structure-aware view of every engine message (bincode legacy of a `Vec<T>`), keyed by the
//! phase label the engine itself passes to the channel.
use rand::Rng;

#[derive(Clone, Debug, PartialEq)]
pub enum Sch {
    U8,
    Bool,
    U32,
    U128,
    Bytes(usize),
    Opt(Box<Sch>),
    Tuple(Vec<Sch>),
    Vec(Box<Sch>),
    Arr(usize, Box<Sch>),
}

#[derive(Clone, Debug, PartialEq)]
pub enum Val {
    U8(u8),
    /// raw byte (0/1 when well-formed)
    Bool(u8),
    U32(u32),
    U128(u128),
    Bytes(Vec<u8>),
    /// raw tag byte kept when it is not 0/1
    Opt(Option<Box<Val>>),
    Tuple(Vec<Val>),
    Vec(Vec<Val>),
    Arr(Vec<Val>),
}

fn v(s: Sch) -> Sch { Sch::Vec(Box::new(s)) }
fn o(s: Sch) -> Sch { Sch::Opt(Box::new(s)) }
fn t(s: Vec<Sch>) -> Sch { Sch::Tuple(s) }

pub fn schema_for(label: &str) -> Option<Sch> {
    use Sch::*;
    if label.starts_with("broadcast ") {
        return Some(v(o(U128)));
    }
    Some(match label {
        "RNG comm" => v(Bytes(32)),
        "RNG ver" => v(U8),
        "CO_OT_s" => v(U8),
        "CO_OT_r" => v(v(U8)),
        "CO_OT_c0c1" => v(t(vec![Bytes(16), Bytes(16)])),
        "ALSZ_OT_setup" => v(v(U8)),
        "KOS_OT_x_t0_t1" => v(t(vec![Bytes(16), Bytes(16), Bytes(16)])),
        "KOS_OT_corr" => v(Bytes(16)),
        "fabitn" => v(t(vec![Bool, U128])),
        "fashare comm" => v(t(vec![Bytes(32), Bytes(32), Bytes(32)])),
        "fashare ver" => v(v(U8)),
        "fashare di_bi" => v(U128),
        "haand" => v(t(vec![Bool, Bool])),
        "flaand" => v(t(vec![Bool, U128])),
        "flaand comm" => v(Bytes(32)),
        "flaand hash" => v(U128),
        "dvalue" => v(t(vec![v(Bool), v(U128)])),
        "faand" => v(t(vec![Bool, Bool, U128, U128])),
        "preprocessed gates" => v(Arr(4, Box::new(v(U8)))),
        "wire shares" | "output wire shares" | "lambda" => v(o(t(vec![Bool, U128]))),
        "masked inputs" => v(o(Bool)),
        "labels" => v(o(U128)),
        _ => return None,
    })
}

pub fn decode(s: &Sch, b: &[u8]) -> Option<(Val, usize)> {
    match s {
        Sch::U8 => b.first().map(|x| (Val::U8(*x), 1)),
        Sch::Bool => b.first().map(|x| (Val::Bool(*x), 1)),
        Sch::U32 => b.get(..4).map(|x| (Val::U32(u32::from_le_bytes(x.try_into().unwrap())), 4)),
        Sch::U128 => b.get(..16).map(|x| (Val::U128(u128::from_le_bytes(x.try_into().unwrap())), 16)),
        Sch::Bytes(n) => b.get(..*n).map(|x| (Val::Bytes(x.to_vec()), *n)),
        Sch::Opt(inner) => match b.first()? {
            0 => Some((Val::Opt(None), 1)),
            1 => {
                let (x, c) = decode(inner, &b[1..])?;
                Some((Val::Opt(Some(Box::new(x))), 1 + c))
            }
            _ => None,
        },
        Sch::Tuple(items) => {
            let mut off = 0;
            let mut out = vec![];
            for it in items {
                let (x, c) = decode(it, &b[off..])?;
                out.push(x);
                off += c;
            }
            Some((Val::Tuple(out), off))
        }
        Sch::Arr(n, inner) => {
            let mut off = 0;
            let mut out = vec![];
            for _ in 0..*n {
                let (x, c) = decode(inner, &b[off..])?;
                out.push(x);
                off += c;
            }
            Some((Val::Arr(out), off))
        }
        Sch::Vec(inner) => {
            let len = u64::from_le_bytes(b.get(..8)?.try_into().unwrap()) as usize;
            if len > b.len() {
                return None;
            }
            let mut off = 8;
            let mut out = Vec::with_capacity(len);
            for _ in 0..len {
                let (x, c) = decode(inner, &b[off..])?;
                out.push(x);
                off += c;
            }
            Some((Val::Vec(out), off))
        }
    }
}

pub fn decode_all(s: &Sch, b: &[u8]) -> Option<Val> {
    let (x, c) = decode(s, b)?;
    if c == b.len() { Some(x) } else { None }
}

pub fn encode(x: &Val, out: &mut Vec<u8>) {
    match x {
        Val::U8(b) | Val::Bool(b) => out.push(*b),
        Val::U32(w) => out.extend_from_slice(&w.to_le_bytes()),
        Val::U128(w) => out.extend_from_slice(&w.to_le_bytes()),
        Val::Bytes(b) => out.extend_from_slice(b),
        Val::Opt(None) => out.push(0),
        Val::Opt(Some(i)) => {
            out.push(1);
            encode(i, out);
        }
        Val::Tuple(items) | Val::Arr(items) => {
            for i in items {
                encode(i, out);
            }
        }
        Val::Vec(items) => {
            out.extend_from_slice(&(items.len() as u64).to_le_bytes());
            for i in items {
                encode(i, out);
            }
        }
    }
}

pub fn to_bytes(x: &Val) -> Vec<u8> {
    let mut o = vec![];
    encode(x, &mut o);
    o
}

/// A default ("zero") value of a schema.
pub fn zero(s: &Sch) -> Val {
    match s {
        Sch::U8 => Val::U8(0),
        Sch::Bool => Val::Bool(0),
        Sch::U32 => Val::U32(0),
        Sch::U128 => Val::U128(0),
        Sch::Bytes(n) => Val::Bytes(vec![0; *n]),
        Sch::Opt(_) => Val::Opt(None),
        Sch::Tuple(i) => Val::Tuple(i.iter().map(zero).collect()),
        Sch::Vec(_) => Val::Vec(vec![]),
        Sch::Arr(n, i) => Val::Arr((0..*n).map(|_| zero(i)).collect()),
    }
}

/// A non-zero default value of a schema (true, all-ones).
pub fn ones(s: &Sch) -> Val {
    match s {
        Sch::U8 => Val::U8(0xff),
        Sch::Bool => Val::Bool(1),
        Sch::U32 => Val::U32(u32::MAX),
        Sch::U128 => Val::U128(u128::MAX),
        Sch::Bytes(n) => Val::Bytes(vec![0xff; *n]),
        Sch::Opt(i) => Val::Opt(Some(Box::new(ones(i)))),
        Sch::Tuple(i) => Val::Tuple(i.iter().map(ones).collect()),
        Sch::Vec(_) => Val::Vec(vec![]),
        Sch::Arr(n, i) => Val::Arr((0..*n).map(|_| ones(i)).collect()),
    }
}

// ------------------------------------------------------------------------------------------------
// tree mutation
// ------------------------------------------------------------------------------------------------

#[derive(Clone, Debug, PartialEq)]
pub enum MutOp {
    /// flip one (random) bit of a leaf
    FlipBit,
    /// replace a leaf by a random value
    Randomize,
    /// bool byte := 2
    BoolTwo,
    SomeToNone,
    NoneToSome,
    /// drop the last element of a vec
    PopLast,
    /// drop the first element
    PopFirst,
    /// duplicate the last element (len + 1)
    DupLast,
    /// remove all elements
    Empty,
    /// keep the first half
    Halve,
    /// swap the first two elements
    SwapFirstTwo,
    /// XOR a leaf u128 with a given value
    XorU128(u128),
    /// set a leaf bool
    SetBool(bool),
    SetU128(u128),
    SetBytes(Vec<u8>),
    XorU8(u8),
    SetU8(u8),
    /// swap two elements of a vector
    SwapElems(usize, usize),
    /// keep only the first n elements of a vector
    KeepFirst(usize),
    /// None -> Some(non-zero default: true / all ones)
    NoneToSomeOne,
    /// XOR a leaf u128 with the probed global key of a party (dynamic, read in the same poll)
    XorDeltaOf(usize),
}

#[derive(Clone, Debug, PartialEq)]
pub struct TreeMut {
    pub path: Vec<usize>,
    pub op: MutOp,
}

impl TreeMut {
    /// normalised description (positions collapsed to first/mid/last classes are up to the caller)
    pub fn describe(&self) -> String {
        format!("{:?}@depth{}", self.op, self.path.len())
    }
}

fn child_mut<'a>(x: &'a mut Val, i: usize) -> Option<&'a mut Val> {
    match x {
        Val::Tuple(v) | Val::Vec(v) | Val::Arr(v) => v.get_mut(i),
        Val::Opt(Some(b)) if i == 0 => Some(b),
        _ => None,
    }
}

fn child<'a>(x: &'a Val, i: usize) -> Option<&'a Val> {
    match x {
        Val::Tuple(v) | Val::Vec(v) | Val::Arr(v) => v.get(i),
        Val::Opt(Some(b)) if i == 0 => Some(b),
        _ => None,
    }
}

pub fn get<'a>(x: &'a Val, path: &[usize]) -> Option<&'a Val> {
    let mut cur = x;
    for i in path {
        cur = child(cur, *i)?;
    }
    Some(cur)
}

fn sub_schema<'a>(s: &'a Sch, x: &Val, path: &[usize]) -> Option<&'a Sch> {
    let mut cs = s;
    let mut cx = x;
    for i in path {
        cs = match cs {
            Sch::Tuple(items) => items.get(*i)?,
            Sch::Vec(inner) | Sch::Arr(_, inner) | Sch::Opt(inner) => inner,
            _ => return None,
        };
        cx = child(cx, *i)?;
    }
    let _ = cx;
    Some(cs)
}

/// Applies a mutation; returns false if it does not apply at that node.
pub fn apply(s: &Sch, x: &mut Val, m: &TreeMut, rng: &mut impl Rng) -> bool {
    let sub = sub_schema(s, x, &m.path).cloned();
    let mut cur = &mut *x;
    for i in &m.path {
        let Some(c) = child_mut(cur, *i) else { return false };
        cur = c;
    }
    match (&m.op, cur) {
        (MutOp::FlipBit, Val::U128(w)) => { *w ^= 1u128 << rng.random_range(0..128); true }
        (MutOp::FlipBit, Val::U8(b)) => { *b ^= 1 << rng.random_range(0..8); true }
        (MutOp::FlipBit, Val::U32(b)) => { *b ^= 1 << rng.random_range(0..32); true }
        (MutOp::FlipBit, Val::Bool(b)) => { *b ^= 1; true }
        (MutOp::FlipBit, Val::Bytes(b)) if !b.is_empty() => { let i = rng.random_range(0..b.len()); b[i] ^= 1 << rng.random_range(0..8); true }
        (MutOp::Randomize, Val::U128(w)) => { *w = rng.random(); true }
        (MutOp::Randomize, Val::U8(b)) => { *b = rng.random(); true }
        (MutOp::Randomize, Val::Bytes(b)) => { rng.fill(&mut b[..]); true }
        (MutOp::XorU128(d), Val::U128(w)) => { *w ^= *d; true }
        (MutOp::SetBool(v), Val::Bool(b)) => { *b = *v as u8; true }
        (MutOp::SetU128(d), Val::U128(w)) => { *w = *d; true }
        (MutOp::XorU8(d), Val::U8(b)) => { *b ^= *d; true }
        (MutOp::SetU8(d), Val::U8(b)) => { *b = *d; true }
        (MutOp::SetBytes(d), Val::Bytes(b)) if d.len() == b.len() => { b.copy_from_slice(d); true }
        (MutOp::XorDeltaOf(p), Val::U128(w)) => match crate::hooks::delta_of(*p) { Some(d) => { *w ^= d; true } None => false },
        (MutOp::BoolTwo, Val::Bool(b)) => { *b = 2; true }
        (MutOp::SomeToNone, o @ Val::Opt(Some(_))) => { *o = Val::Opt(None); true }
        (MutOp::NoneToSome, o @ Val::Opt(None)) => {
            if let Some(Sch::Opt(inner)) = sub { *o = Val::Opt(Some(Box::new(zero(&inner)))); true } else { false }
        }
        (MutOp::PopLast, Val::Vec(v)) if !v.is_empty() => { v.pop(); true }
        (MutOp::PopFirst, Val::Vec(v)) if !v.is_empty() => { v.remove(0); true }
        (MutOp::DupLast, Val::Vec(v)) => {
            if let Some(l) = v.last().cloned() { v.push(l); true }
            else if let Some(Sch::Vec(inner)) = sub { v.push(zero(&inner)); true } else { false }
        }
        (MutOp::Empty, Val::Vec(v)) if !v.is_empty() => { v.clear(); true }
        (MutOp::Halve, Val::Vec(v)) if v.len() >= 2 => { let h = v.len() / 2; v.truncate(h); true }
        (MutOp::SwapFirstTwo, Val::Vec(v)) if v.len() >= 2 && v[0] != v[1] => { v.swap(0, 1); true }
        (MutOp::KeepFirst(k), Val::Vec(v)) if v.len() > *k => { v.truncate(*k); true }
        (MutOp::NoneToSomeOne, o @ Val::Opt(None)) => {
            if let Some(Sch::Opt(inner)) = sub { *o = Val::Opt(Some(Box::new(ones(&inner)))); true } else { false }
        }
        (MutOp::SwapElems(a, b), Val::Vec(v)) if *a < v.len() && *b < v.len() && v[*a] != v[*b] => { v.swap(*a, *b); true }
        _ => false,
    }
}

#[derive(Clone, Copy, PartialEq)]
pub enum Density {
    /// first / middle / last element of every vector
    Sampled,
    /// every position of vectors up to 64 elements, sampled beyond
    Full,
}

fn positions(len: usize, d: Density) -> Vec<usize> {
    if len == 0 {
        return vec![];
    }
    if d == Density::Full && len <= 64 {
        return (0..len).collect();
    }
    let mut p = vec![0, len / 2, len - 1];
    p.dedup();
    p
}

/// Enumerates the tree mutations applicable to a decoded message.
pub fn enumerate(x: &Val, d: Density) -> Vec<TreeMut> {
    let mut out = vec![];
    walk(x, &mut vec![], d, &mut out);
    out
}

fn walk(x: &Val, path: &mut Vec<usize>, d: Density, out: &mut Vec<TreeMut>) {
    let push = |out: &mut Vec<TreeMut>, path: &Vec<usize>, op: MutOp| out.push(TreeMut { path: path.clone(), op });
    match x {
        Val::U128(_) | Val::U8(_) | Val::U32(_) => {
            push(out, path, MutOp::FlipBit);
            push(out, path, MutOp::Randomize);
        }
        Val::Bytes(_) => {
            push(out, path, MutOp::FlipBit);
            push(out, path, MutOp::Randomize);
        }
        Val::Bool(_) => {
            push(out, path, MutOp::FlipBit);
            push(out, path, MutOp::BoolTwo);
        }
        Val::Opt(None) => {
            push(out, path, MutOp::NoneToSome);
            push(out, path, MutOp::NoneToSomeOne);
        }
        Val::Opt(Some(i)) => {
            push(out, path, MutOp::SomeToNone);
            path.push(0);
            walk(i, path, d, out);
            path.pop();
        }
        Val::Tuple(items) | Val::Arr(items) => {
            for (i, it) in items.iter().enumerate() {
                path.push(i);
                walk(it, path, d, out);
                path.pop();
            }
        }
        Val::Vec(items) => {
            for op in [MutOp::PopLast, MutOp::PopFirst, MutOp::DupLast, MutOp::Empty, MutOp::Halve, MutOp::SwapFirstTwo] {
                push(out, path, op);
            }
            // a vec(u8) is treated as a byte string: mutate a few bytes only
            let is_bytes = matches!(items.first(), Some(Val::U8(_)));
            if is_bytes {
                for k in [1usize, 15, 16] {
                    if items.len() > k {
                        push(out, path, MutOp::KeepFirst(k));
                    }
                }
            }
            let pos = if is_bytes { positions(items.len(), Density::Sampled) } else { positions(items.len(), d) };
            for i in pos {
                path.push(i);
                walk(&items[i], path, d, out);
                path.pop();
            }
        }
    }
}

/// All 128-bit fields of a decoded message (u128 leaves, 16-byte strings both byte orders are
/// produced by the caller).
pub fn u128_leaves(x: &Val, out: &mut Vec<u128>) {
    match x {
        Val::U128(w) => out.push(*w),
        Val::Bytes(b) if b.len() == 16 => out.push(u128::from_le_bytes(b[..].try_into().unwrap())),
        Val::Opt(Some(i)) => u128_leaves(i, out),
        Val::Tuple(v) | Val::Vec(v) | Val::Arr(v) => {
            for i in v {
                u128_leaves(i, out);
            }
        }
        _ => {}
    }
}

/// Position class of an index in a vector of length len.
pub fn pos_class(i: usize, len: usize) -> &'static str {
    if i == 0 { "first" } else if i + 1 == len { "last" } else { "mid" }
}
