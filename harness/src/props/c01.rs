//! C01 - honest execution computes exactly the circuit, for every role assignment.
use rand::{Rng, SeedableRng};
use rand_chacha::ChaCha8Rng;
use serde_json::json;

use crate::circ::{self, GenCfg};
use crate::report::{Report, bits};
use crate::runner::{Case, exec_mpc, outcome_str, parallel_for, threads};
use crate::sim::{Outcome, RunEnd, SchedKind};

#[derive(Clone)]
pub struct Spec {
    pub n: usize,
    pub p_eval: usize,
    pub p_out: Vec<usize>,
    pub tmp: Vec<bool>,
    pub ands: usize,
    pub gen_seed: u64,
    pub sched: SchedKind,
    pub cap: Option<usize>,
    /// total number of input bits spread over the parties (0 = generator default): exercises the
    /// random-share batches on the input side
    pub many_inputs: usize,
}

pub fn and_class(a: usize) -> &'static str {
    match a {
        0 => "0",
        1..=999 => "<1000",
        1000 => "=1000",
        1001..=1999 => "1001..1999",
        2000..=8999 => "2..8 batches",
        9000..=9008 => "9000..9008",
        9009..=27899 => "9 batches, b=5",
        _ => ">=27900 (bucket 4)",
    }
}

fn subsets(n: usize) -> Vec<Vec<usize>> {
    (1u32..(1 << n)).map(|m| (0..n).filter(|i| m >> i & 1 == 1).collect()).collect()
}

pub fn build_specs(tier: &str, seed: u64) -> Vec<Spec> {
    let mut rng = ChaCha8Rng::seed_from_u64(seed.wrapping_mul(0x9e37_79b9) ^ 0xc01);
    let thorough = tier == "thorough";
    let mut specs = vec![];
    let small_ands = [0usize, 0, 1, 1, 2, 3, 5, 8, 13];
    let reps = if thorough { 60 } else { 8 };
    for n in 2..=5usize {
        for p_eval in 0..n {
            let outs: Vec<Vec<usize>> = if n <= 3 || (thorough && n == 4) {
                subsets(n)
            } else {
                let all = subsets(n);
                let mut v = vec![];
                // one containing the evaluator, one without, the full set, one random
                let with: Vec<_> = all.iter().filter(|s| s.contains(&p_eval)).cloned().collect();
                let without: Vec<_> = all.iter().filter(|s| !s.contains(&p_eval)).cloned().collect();
                v.push(with[rng.random_range(0..with.len())].clone());
                v.push(without[rng.random_range(0..without.len())].clone());
                v.push(all[rng.random_range(0..all.len())].clone());
                if thorough {
                    for _ in 0..6 { v.push(all[rng.random_range(0..all.len())].clone()); }
                }
                v
            };
            for p_out in outs {
                for _ in 0..reps {
                    let tmp: Vec<bool> = (0..n).map(|_| rng.random_bool(0.3)).collect();
                    let ands = small_ands[rng.random_range(0..small_ands.len())];
                    let sched = match rng.random_range(0..4) {
                        0 => SchedKind::Random,
                        1 => SchedKind::LazyDeliver,
                        _ => SchedKind::RoundRobin,
                    };
                    let cap = match rng.random_range(0..4) { 0 => Some(1), 1 => Some(2), _ => None };
                    specs.push(Spec { n, p_eval, p_out: p_out.clone(), tmp, ands, gen_seed: rng.random(), sched, cap, many_inputs: 0 });
                }
            }
        }
    }
    // batch-boundary circuits
    let mut heavy: Vec<(usize, usize)> = vec![(2, 999), (2, 1000), (2, 1001), (2, 1100), (2, 2001), (2, 9001), (3, 1000), (3, 1001), (2, 9009)];
    if thorough {
        heavy.extend_from_slice(&[(3, 999), (3, 2001), (4, 1001), (5, 1001), (3, 9001), (2, 18003), (2, 27900), (2, 27951), (3, 9010), (4, 2000)]);
    }
    for (n, ands) in heavy {
        let reps = if thorough && ands < 5000 { 3 } else { 1 };
        for _ in 0..reps {
            let p_eval = rng.random_range(0..n);
            let all = subsets(n);
            let p_out = all[rng.random_range(0..all.len())].clone();
            let tmp: Vec<bool> = (0..n).map(|_| rng.random_bool(0.5)).collect();
            specs.push(Spec { n, p_eval, p_out, tmp, ands, gen_seed: rng.random(), sched: SchedKind::RoundRobin, cap: None, many_inputs: 0 });
        }
    }
    // many input bits: the random shares of the inputs alone fill one or several batches
    let mut wide: Vec<(usize, usize, usize)> = vec![(2, 990, 9), (2, 1000, 0), (2, 1500, 5), (3, 1003, 2), (2, 998, 3)];
    if thorough {
        wide.extend_from_slice(&[(2, 2500, 11), (4, 1200, 4), (2, 9100, 1), (3, 3000, 1000)]);
    }
    for (n, total, ands) in wide {
        let p_eval = rng.random_range(0..n);
        let all = subsets(n);
        let p_out = all[rng.random_range(0..all.len())].clone();
        let tmp: Vec<bool> = (0..n).map(|_| rng.random_bool(0.5)).collect();
        specs.push(Spec { n, p_eval, p_out, tmp, ands, gen_seed: rng.random(), sched: SchedKind::RoundRobin, cap: None, many_inputs: total });
    }
    specs
}

pub struct CaseOut {
    pub key: String,
    pub nontrivial: bool,
    pub ok: bool,
    pub sample: serde_json::Value,
    pub end: RunEnd,
    pub sig: Option<String>,
    pub msgs: usize,
    pub sched_hash: u64,
}

pub fn gen_for(spec: &Spec) -> (polytune::garble_lang::register_circuit::Circuit, GenCfg, Vec<Vec<bool>>, bool) {
    let mut rng = ChaCha8Rng::seed_from_u64(spec.gen_seed);
    let mut cfg: GenCfg = circ::random_gen_cfg(&mut rng, spec.n, spec.ands);
    if spec.many_inputs > 0 {
        // uneven split, one party may have none
        let mut left = spec.many_inputs;
        for p in 0..spec.n {
            let k = if p + 1 == spec.n { left } else { rng.random_range(0..=left.min(spec.many_inputs * 2 / spec.n)) };
            cfg.inputs[p] = k;
            left -= k;
        }
        cfg.others = 40;
        cfg.extra_regs = 60;
        cfg.n_out = 6;
    }
    if spec.ands > 500 {
        cfg.others = spec.ands / 10;
        cfg.extra_regs = rng.random_range(8..64);
        cfg.reuse_pct = 60;
    }
    let c = circ::gen_circuit(&mut rng, &cfg);
    let inputs = circ::random_inputs(&mut rng, &c);
    // non-trivial: expected output varies over some inputs
    let base = circ::eval_clear(&c, &inputs);
    let mut nontrivial = false;
    for _ in 0..8 {
        let alt = circ::random_inputs(&mut rng, &c);
        if circ::eval_clear(&c, &alt) != base {
            nontrivial = true;
            break;
        }
    }
    (c, cfg, inputs, nontrivial)
}

pub fn run_spec(spec: &Spec) -> CaseOut {
    let (c, cfg, inputs, nontrivial) = gen_for(spec);
    if let Err(e) = c.validate() {
        return CaseOut {
            key: String::new(), nontrivial: false, ok: true, sample: json!({"generator_error": format!("{e:?}")}),
            end: RunEnd::HarnessError(format!("generated circuit invalid: {e:?}")), sig: None, msgs: 0, sched_hash: 0,
        };
    }
    let expected = circ::eval_clear(&c, &inputs);
    let lib = c.eval(&inputs);
    let mut case = Case::new(c.clone(), inputs.clone(), spec.p_eval, spec.p_out.clone());
    case.tmp = spec.tmp.clone();
    case.cap = spec.cap;
    case.keep_bytes = false;
    case = case.with_sched(spec.sched.clone(), spec.gen_seed);
    let ex = exec_mpc(case);
    if ex.outcomes.iter().any(crate::props::env_failure) {
        return CaseOut { key: String::new(), nontrivial: false, ok: true, sample: json!({"environment": "temp-file I/O error"}), end: RunEnd::StepLimit, sig: None, msgs: 0, sched_hash: 0 };
    }
    let mut ok = ex.end == RunEnd::AllFinished && lib == expected;
    let mut sig = None;
    if lib != expected {
        sig = Some("clear-text evaluator disagrees with Circuit::eval (harness)".to_string());
    }
    for p in 0..spec.n {
        let want = if spec.p_out.contains(&p) { expected.clone() } else { vec![] };
        let good = matches!(&ex.outcomes[p], Outcome::Done(Ok(v)) if *v == want);
        if !good {
            ok = false;
            if sig.is_none() {
                let role = if p == spec.p_eval { "evaluator" } else { "garbler" };
                let inout = if spec.p_out.contains(&p) { "output-party" } else { "non-output-party" };
                let got = match &ex.outcomes[p] {
                    Outcome::Done(Ok(_)) => "Ok(wrong value)".to_string(),
                    o => super::classify(o),
                };
                sig = Some(format!("honest run: {role} {inout} returned {got}"));
            }
        }
    }
    let key = format!(
        "n={} E={} O={:?} tmp={} ands={} inputs={} feat={}",
        spec.n, spec.p_eval, spec.p_out, bits(&spec.tmp), and_class(spec.ands), if spec.many_inputs > 0 { and_class(spec.many_inputs) } else { "few" }, cfg.features()
    );
    let sample = json!({
        "n": spec.n, "p_eval": spec.p_eval, "p_out": spec.p_out, "tmp_dir": bits(&spec.tmp),
        "sched": format!("{:?}", spec.sched), "capacity": spec.cap,
        "circuit": circ::circ_to_json(&c),
        "inputs": inputs.iter().map(|v| bits(v)).collect::<Vec<_>>(),
        "expected": bits(&expected),
        "outcomes": ex.outcomes.iter().map(outcome_str).collect::<Vec<_>>(),
        "messages": ex.net.msgs.len(),
        "end": format!("{:?}", ex.end),
    });
    CaseOut { key, nontrivial, ok, sample, end: ex.end, sig, msgs: ex.net.msgs.len(), sched_hash: ex.sched_hash }
}

pub fn run(tier: &str, seed: u64) -> i32 {
    let mut rep = Report::new("C01", tier, seed, "exploration");
    rep.rule = "generated valid register circuits x role assignments; a case is the tuple (n, p_eval, p_out, tmp_dir mask, AND-batch class, circuit feature set); non-trivial = the expected output differs between at least two of the input assignments tried for that circuit".into();
    rep.assumptions = vec![
        "clear-text evaluator in the harness (cross-checked against Circuit::eval on every case)".into(),
        "reliable per-pair FIFO channel simulated in-process".into(),
    ];
    let specs = build_specs(tier, seed);
    let outs = parallel_for(specs.len(), threads(), |i| run_spec(&specs[i]));
    let mut scheds = std::collections::BTreeSet::new();
    let mut classes = std::collections::BTreeMap::new();
    for (spec, o) in specs.iter().zip(outs) {
        rep.evaluations += 1;
        scheds.insert(o.sched_hash);
        *classes.entry(and_class(spec.ands).to_string()).or_insert(0u64) += 1;
        match &o.end {
            RunEnd::HarnessError(e) => { rep.harness_error(e.clone()); continue; }
            RunEnd::StepLimit => { rep.inconclusive("step limit or temp-file I/O error of the environment"); continue; }
            _ => {}
        }
        if o.nontrivial {
            rep.distinct.insert(o.key.clone());
        }
        rep.add("messages_observed", o.msgs as u64);
        if !o.ok {
            let sig = o.sig.clone().unwrap_or_else(|| format!("honest run ended {:?}", o.end));
            rep.violation(sig, o.sample.clone());
        } else {
            rep.sample(o.sample);
        }
    }
    rep.set("and_batch_classes", json!(classes));
    rep.set("distinct_schedules", json!(scheds.len()));
    rep.finish()
}
