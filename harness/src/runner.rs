//! Runs one `polytune::mpc` execution of all parties inside the simulator.
use std::path::PathBuf;
use std::sync::atomic::{AtomicU64, Ordering};
use std::sync::{Arc, Mutex};

use polytune::garble_lang::register_circuit::Circuit;

use crate::hooks::ProbeRec;
use crate::sim::{self, Adversary, DeadSend, Net, Outcome, PartyFut, RunEnd, SchedKind, SimCfg, SimChan};

pub type MpcOut = Result<Vec<bool>, String>;

pub struct Case {
    pub circ: Circuit,
    pub inputs: Vec<Vec<bool>>,
    pub p_eval: usize,
    pub p_out: Vec<usize>,
    /// per party: spill to a temp dir
    pub tmp: Vec<bool>,
    pub cap: Option<usize>,
    pub sim: SimCfg,
    pub dead_send: DeadSend,
    pub adversary: Option<Box<dyn Adversary>>,
    pub keep_bytes: bool,
    pub record_probes: bool,
    pub send_yields: bool,
    /// wall-clock perturbation (see `Net::stall_after_send`)
    pub stall_after_send: Option<(usize, u64)>,
    /// per-party overrides (C18): (inputs, p_eval, p_own, p_out, circuit)
    pub overrides: Vec<Option<PartyArgs>>,
}

#[derive(Clone)]
pub struct PartyArgs {
    pub circ: Option<Circuit>,
    pub inputs: Vec<bool>,
    pub p_eval: usize,
    pub p_own: usize,
    pub p_out: Vec<usize>,
}

impl Case {
    pub fn new(circ: Circuit, inputs: Vec<Vec<bool>>, p_eval: usize, p_out: Vec<usize>) -> Self {
        let n = circ.input_regs.len();
        Case {
            circ,
            inputs,
            p_eval,
            p_out,
            tmp: vec![false; n],
            cap: None,
            sim: SimCfg::default(),
            dead_send: DeadSend::Err,
            adversary: None,
            keep_bytes: true,
            record_probes: false,
            send_yields: false,
            stall_after_send: None,
            overrides: vec![None; n],
        }
    }
    pub fn n(&self) -> usize {
        self.circ.input_regs.len()
    }
    pub fn with_sched(mut self, s: SchedKind, seed: u64) -> Self {
        self.sim.sched = s;
        self.sim.seed = seed;
        self
    }
}

pub struct Exec {
    pub outcomes: Vec<Outcome<MpcOut>>,
    pub end: RunEnd,
    pub net: Net,
    pub probes: Vec<ProbeRec>,
    pub steps: u64,
    pub polls: u64,
    pub sched_hash: u64,
    pub ilv_hash: u64,
    pub max_alloc_req: Vec<usize>,
    /// files left behind in a party's temp dir (should be empty)
    pub leftover_files: Vec<String>,
}

static SCRATCH_CTR: AtomicU64 = AtomicU64::new(0);

pub fn scratch_root() -> PathBuf {
    let root = std::env::var("PV_SCRATCH").unwrap_or_else(|_| "/verif/.scratch".to_string());
    PathBuf::from(root)
}

pub fn fresh_scratch_dir(tag: &str) -> PathBuf {
    let c = SCRATCH_CTR.fetch_add(1, Ordering::SeqCst);
    let d = scratch_root().join(format!("{}-{}-{}", std::process::id(), tag, c));
    let _ = std::fs::create_dir_all(&d);
    d
}

pub fn exec_mpc(mut case: Case) -> Exec {
    let n = case.n();
    let (net, chans) = SimChan::new_set(n, case.cap);
    {
        let mut g = net.lock().unwrap();
        g.dead_send = case.dead_send;
        g.adversary = case.adversary.take();
        g.keep_bytes = case.keep_bytes;
        g.send_yields = case.send_yields;
        g.stall_after_send = case.stall_after_send;
    }
    let dirs: Vec<Option<PathBuf>> = (0..n)
        .map(|p| if case.tmp[p] { Some(fresh_scratch_dir(&format!("p{p}"))) } else { None })
        .collect();
    if case.record_probes {
        crate::hooks::record_probes();
    }
    let args: Vec<PartyArgs> = (0..n)
        .map(|p| {
            case.overrides[p].clone().unwrap_or(PartyArgs {
                circ: None,
                inputs: case.inputs.get(p).cloned().unwrap_or_default(),
                p_eval: case.p_eval,
                p_own: p,
                p_out: case.p_out.clone(),
            })
        })
        .collect();
    let circs: Vec<&Circuit> = args.iter().map(|a| a.circ.as_ref().unwrap_or(&case.circ)).collect();
    let res = {
        let mut futs: Vec<PartyFut<'_, MpcOut>> = vec![];
        for p in 0..n {
            let ch = &chans[p];
            let a = &args[p];
            let c = circs[p];
            let d = dirs[p].as_deref();
            futs.push(Box::pin(async move {
                polytune::mpc(ch, c, &a.inputs, a.p_eval, a.p_own, &a.p_out, d)
                    .await
                    .map_err(|e| format!("{e:?}"))
            }));
        }
        sim::run(&net, futs, &case.sim)
    };
    let probes = if case.record_probes {
        crate::hooks::clear_probes();
        crate::hooks::probes_snapshot()
    } else {
        vec![]
    };
    let mut leftover = vec![];
    for d in dirs.iter().flatten() {
        if let Ok(rd) = std::fs::read_dir(d) {
            for e in rd.flatten() {
                leftover.push(e.path().display().to_string());
            }
        }
        let _ = std::fs::remove_dir_all(d);
    }
    drop(chans);
    let net = match Arc::try_unwrap(net) {
        Ok(m) => m.into_inner().unwrap_or_else(|e| e.into_inner()),
        Err(a) => {
            // a leaked (panicked) future still holds a handle: take the contents out
            let mut g = a.lock().unwrap_or_else(|e| e.into_inner());
            std::mem::replace(&mut *g, Net::new(0, None))
        }
    };
    Exec {
        outcomes: res.outcomes,
        end: res.end,
        net,
        probes,
        steps: res.steps,
        polls: res.polls,
        sched_hash: res.sched_hash,
        ilv_hash: res.ilv_hash,
        max_alloc_req: res.max_alloc_req,
        leftover_files: leftover,
    }
}

/// Expected honest result of party p.
pub fn expected_for(case_circ: &Circuit, inputs: &[Vec<bool>], p_out: &[usize], p: usize) -> Vec<bool> {
    if p_out.contains(&p) { crate::circ::eval_clear(case_circ, inputs) } else { vec![] }
}

pub fn outcome_str(o: &Outcome<MpcOut>) -> String {
    match o {
        Outcome::Done(Ok(v)) => format!("Ok({})", v.iter().map(|b| if *b { '1' } else { '0' }).collect::<String>()),
        Outcome::Done(Err(e)) => {
            let mut s = e.clone();
            if s.len() > 160 { s.truncate(160); }
            format!("Err({s})")
        }
        Outcome::Panic(m, l) => format!("Panic({m} @ {l})"),
        Outcome::Crashed => "Crashed".into(),
        Outcome::Unfinished => "Unfinished".into(),
    }
}

/// A pool of worker threads pulling case indices.
pub fn parallel_for<R: Send>(n_items: usize, threads: usize, f: impl Fn(usize) -> R + Sync) -> Vec<R> {
    let next = AtomicU64::new(0);
    let out: Mutex<Vec<(usize, R)>> = Mutex::new(Vec::with_capacity(n_items));
    std::thread::scope(|s| {
        for _ in 0..threads.max(1) {
            s.spawn(|| {
                crate::sim::set_quiet_panics(true);
                loop {
                    let i = next.fetch_add(1, Ordering::SeqCst) as usize;
                    if i >= n_items {
                        break;
                    }
                    let r = f(i);
                    out.lock().unwrap().push((i, r));
                }
            });
        }
    });
    let mut v = out.into_inner().unwrap();
    v.sort_by_key(|(i, _)| *i);
    v.into_iter().map(|(_, r)| r).collect()
}

pub fn threads() -> usize {
    std::env::var("PV_THREADS").ok().and_then(|s| s.parse().ok()).unwrap_or_else(|| {
        std::thread::available_parallelism().map(|n| n.get()).unwrap_or(8).min(16)
    })
}
