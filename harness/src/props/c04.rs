//! C04 - preprocessing: cheating detected, commit-before-reveal, challenge-after-data.
use rand::{Rng, SeedableRng, seq::SliceRandom};
use rand_chacha::{ChaCha8Rng, ChaCha20Rng};
use serde_json::{Value, json};

use crate::adv::{FaultAction, FaultPlan, Target, What};
use crate::circ;
use crate::codec::{MutOp, TreeMut, Val};
use crate::faults::{self, FaultCase, PilotMsg, World};
use crate::props::c03::pick;
use crate::report::Report;
use crate::runner::{Case, exec_mpc, parallel_for, threads};
use crate::shard;
use crate::sim::{EvKind, Net, Outcome, RunEnd, SchedKind};

fn vec_len(m: &PilotMsg) -> usize {
    match &m.tree { Some(Val::Vec(v)) => v.len(), _ => 0 }
}

fn tm(path: Vec<usize>, op: MutOp) -> TreeMut {
    TreeMut { path, op }
}

/// The cheating catalogue. Every entry has a deterministic (or <= 2^-64 failure) expectation:
/// the honest receivers of the bad value return Err and do not proceed to the online phase.
pub fn catalogue(w: &World, tier: &str, seed: u64, reps: usize) -> Vec<FaultCase> {
    let thorough = tier == "thorough";
    let mut cases = vec![];
    for (ci, cfg) in w.cfgs.iter().enumerate() {
        let n = cfg.n();
        if !thorough && n == 3 && cfg.name != "n3-E1-Oall" && cfg.name != "n3-E0-O2" {
            continue;
        }
        for c in 0..n {
            let honest: Vec<usize> = (0..n).filter(|p| *p != c).collect();
            let msgs: Vec<&PilotMsg> = w.pilots[ci].msgs.iter().filter(|m| m.from == c).collect();
            let mut extra: Vec<FaultCase> = vec![];
            let mut add = |label: &str, to: Option<usize>, k: Option<usize>, what: What, class: String, s: u64, tap: Option<(String, usize)>| {
                let victims: Vec<usize> = match to { Some(t) => vec![t], None => honest.clone() };
                for r in 0..reps {
                    let actions = if tap.is_some() && matches!(what, What::Drop) { vec![] } else {
                        vec![FaultAction { target: Target { from: c, to, label: label.to_string(), k }, what: what.clone() }]
                    };
                    let plan = FaultPlan { corrupt: c, actions, crash: None, seed: s ^ ((r as u64) << 56) };
                    let vname = match (to, k) { (Some(_), Some(_)) => "single", (None, Some(_)) => "all-recipients", (Some(_), None) => "persistent", (None, None) => "persistent-all" };
                    let mut fc = FaultCase::new(ci, plan, format!("{class}:{vname}"), label.to_string());
                    fc.expect_abort = victims.clone();
                    fc.tap = tap.clone();
                    fc.rep = r;
                    cases.push(fc);
                }
            };
            for m in &msgs {
                let s = seed ^ ((ci as u64) << 40) ^ ((c as u64) << 32) ^ ((m.idx_from as u64) << 8);
                let len = vec_len(m);
                let idx: Vec<usize> = (0..len).collect();
                let first_receiver = m.to == honest[0];
                // variants: single recipient always; all-recipient once per logical message (n=3);
                // persistent for the first occurrence of batched labels
                let mut variants: Vec<(Option<usize>, Option<usize>)> = vec![(Some(m.to), Some(m.k))];
                if n == 3 && first_receiver {
                    variants.push((None, Some(m.k)));
                }
                if m.k == 0 && first_receiver && msgs.iter().any(|x| x.label == m.label && x.k > 0) {
                    variants.push((Some(m.to), None));
                }
                // quick: later occurrences of early-protocol labels only for every other message
                if !thorough && m.k > 1 && !cfg.name.ends_with("-big") {
                    continue;
                }
                if cfg.name.ends_with("-big") {
                    // two AND batches: only the checks of the LAST occurrence of each label (second batch)
                    let last = msgs.iter().filter(|x| x.label == m.label && x.to == m.to).map(|x| x.k).max().unwrap_or(0);
                    if m.k != last || m.k == 0 || m.label.starts_with("CO_OT") || m.label.starts_with("RNG") || m.label.starts_with("broadcast") {
                        continue;
                    }
                }
                let mut entries: Vec<(What, String)> = vec![];
                match m.label.as_str() {
                    "RNG ver" => {
                        for j in pick(&idx, thorough) {
                            entries.push((What::Tree(tm(vec![j], MutOp::XorU8(1 << (j % 8)))), format!("seed-changed-after-commit(wire):toss{}", m.k)));
                        }
                    }
                    "RNG comm" => entries.push((What::Tree(tm(vec![0], MutOp::FlipBit)), format!("commitment-altered:toss{}", m.k))),
                    "fashare comm" => {
                        for r in pick(&idx, thorough) {
                            entries.push((What::TreeMulti(vec![tm(vec![r, 0], MutOp::FlipBit), tm(vec![r, 1], MutOp::FlipBit)]), "c0-c1-vs-opened-di_bi".into()));
                        }
                    }
                    "fashare di_bi" => {
                        if len >= 2 {
                            entries.push((What::Tree(tm(vec![], MutOp::SwapElems(0, len - 1))), "opened-di_bi-swapped".into()));
                            entries.push((What::TreeMulti(vec![tm(vec![0], MutOp::XorU128(0x1234)), tm(vec![len - 1], MutOp::XorU128(0x1234))]), "opened-di_bi-two-same-offset".into()));
                        }
                        for r in pick(&idx, thorough) {
                            entries.push((What::Tree(tm(vec![r], MutOp::FlipBit)), "opened-di_bi-vs-commitment".into()));
                        }
                    }
                    "fabitn" => {
                        if len >= 70 {
                            for (a, b) in [(0usize, 1usize), (0, 64), (3, len - 1)] {
                                entries.push((What::TreeMulti(vec![tm(vec![a, 0], MutOp::FlipBit), tm(vec![b, 0], MutOp::FlipBit)]), "abit-two-check-bits".into()));
                                entries.push((What::TreeMulti(vec![tm(vec![a, 1], MutOp::XorU128(0x77)), tm(vec![b, 1], MutOp::XorU128(0x77))]), "abit-two-check-macs-same-offset".into()));
                                entries.push((What::Tree(tm(vec![], MutOp::SwapElems(a, b))), "abit-swap-two-check-values".into()));
                            }
                        }
                        for r in pick(&idx, thorough) {
                            entries.push((What::TreeMulti(vec![tm(vec![r, 0], MutOp::FlipBit), tm(vec![r, 1], MutOp::SetU128(0))]), "abit-check-bit-with-zero-mac".into()));
                            entries.push((What::Tree(tm(vec![r, 0], MutOp::FlipBit)), "abit-check-bit".into()));
                            entries.push((What::Tree(tm(vec![r, 1], MutOp::FlipBit)), "abit-check-mac".into()));
                        }
                    }
                    "fashare ver" => {
                        for r in pick(&idx, thorough) {
                            entries.push((What::Tree(tm(vec![r, 0], MutOp::XorU8(1))), "ashare-check-bit-mac-untouched".into()));
                            // non-boolean check bytes (must be refused whatever their parity)
                            for val in [2u8, 3, 0xfe, 0xff] {
                                entries.push((What::Tree(tm(vec![r, 0], MutOp::SetU8(val))), format!("ashare-check-byte-{val:#x}")));
                                let plan = FaultPlan {
                                    corrupt: c,
                                    actions: vec![
                                        FaultAction { target: Target { from: c, to: Some(m.to), label: "fashare ver".into(), k: Some(m.k) }, what: What::Tree(tm(vec![r, 0], MutOp::SetU8(val))) },
                                        FaultAction { target: Target { from: m.to, to: Some(c), label: "fashare di_bi".into(), k: Some(m.k) }, what: What::Tree(tm(vec![r], MutOp::XorDeltaOf(m.to))) },
                                    ],
                                    crash: None,
                                    seed: s ^ r as u64 ^ ((val as u64) << 20),
                                };
                                let mut fc = FaultCase::new(ci, plan, format!("ashare-check-byte-{val:#x}:cheater-continues"), "fashare ver".into());
                                fc.expect_abort = vec![m.to];
                                fc.needs_probes = true;
                                extra.push(fc);
                            }
                            // the same lie by a cheater that does not stop at its own consistency check:
                            // what the victim opens towards the cheater is patched back on the way in
                            for rr in 0..reps {
                                let plan = FaultPlan {
                                    corrupt: c,
                                    actions: vec![
                                        FaultAction { target: Target { from: c, to: Some(m.to), label: "fashare ver".into(), k: Some(m.k) }, what: What::Tree(tm(vec![r, 0], MutOp::XorU8(1))) },
                                        FaultAction { target: Target { from: m.to, to: Some(c), label: "fashare di_bi".into(), k: Some(m.k) }, what: What::Tree(tm(vec![r], MutOp::XorDeltaOf(m.to))) },
                                    ],
                                    crash: None,
                                    seed: s ^ ((rr as u64) << 56) ^ r as u64,
                                };
                                let mut fc = FaultCase::new(ci, plan, "ashare-check-bit-mac-untouched:cheater-continues".into(), "fashare ver".into());
                                fc.expect_abort = vec![m.to];
                                fc.needs_probes = true;
                                fc.rep = rr;
                                extra.push(fc);
                            }
                            // the MAC under the receiver's key, bit untouched
                            let slot = (0..n).filter(|p| *p != c).position(|p| p == m.to).unwrap_or(0);
                            entries.push((What::Tree(tm(vec![r, 1 + 16 * slot + (r % 16)], MutOp::XorU8(0x10))), "ashare-mac-bit-untouched".into()));
                        }
                    }
                    "flaand" => {
                        for ll in pick(&idx, thorough) {
                            entries.push((What::Tree(tm(vec![ll, 0], MutOp::FlipBit)), "laand-e-bit".into()));
                        }
                        // an even number of wrong e bits (would cancel in a check that folds all triples)
                        if len >= 2 {
                            for (a, b) in [(0usize, 1usize), (0, len - 1), (len / 2, len - 1)] {
                                if a != b {
                                    entries.push((What::TreeMulti(vec![tm(vec![a, 0], MutOp::FlipBit), tm(vec![b, 0], MutOp::FlipBit)]), "laand-two-e-bits".into()));
                                }
                            }
                        }
                    }
                    "haand" => {
                        for ll in pick(&idx, thorough) {
                            entries.push((What::TreeMulti(vec![tm(vec![ll, 0], MutOp::FlipBit), tm(vec![ll, 1], MutOp::FlipBit)]), "haand-both-h".into()));
                        }
                        if len >= 2 {
                            for (a, b) in [(0usize, len - 1), (len / 2, len - 1)] {
                                if a != b {
                                    entries.push((What::TreeMulti(vec![tm(vec![a, 0], MutOp::FlipBit), tm(vec![a, 1], MutOp::FlipBit), tm(vec![b, 0], MutOp::FlipBit), tm(vec![b, 1], MutOp::FlipBit)]), "haand-both-h-two-entries".into()));
                                }
                            }
                        }
                    }
                    "flaand comm" => {
                        for ll in pick(&idx, thorough) {
                            entries.push((What::Tree(tm(vec![ll], MutOp::FlipBit)), "laand-commitment-altered".into()));
                        }
                    }
                    "flaand hash" => {
                        if len >= 2 {
                            entries.push((What::TreeMulti(vec![tm(vec![0], MutOp::XorU128(0xabcd)), tm(vec![len - 1], MutOp::XorU128(0xabcd))]), "laand-two-hashes-same-offset".into()));
                            entries.push((What::Tree(tm(vec![], MutOp::SwapElems(0, len - 1))), "laand-hashes-swapped".into()));
                        }
                        for ll in pick(&idx, thorough) {
                            entries.push((What::Tree(tm(vec![ll], MutOp::FlipBit)), "laand-hash-vs-commitment".into()));
                        }
                    }
                    "dvalue" => {
                        if len >= 2 {
                            entries.push((What::TreeMulti(vec![tm(vec![0, 0, 0], MutOp::FlipBit), tm(vec![len - 1, 0, 0], MutOp::FlipBit)]), "dvalue-two-bits-two-buckets".into()));
                            entries.push((What::Tree(tm(vec![], MutOp::SwapElems(0, len - 1))), "dvalue-swap-two-buckets".into()));
                        }
                        entries.push((What::TreeMulti(vec![tm(vec![0, 0, 0], MutOp::FlipBit), tm(vec![0, 0, 3], MutOp::FlipBit)]), "dvalue-two-bits-one-bucket".into()));
                        entries.push((What::TreeMulti(vec![tm(vec![0, 1, 0], MutOp::XorU128(0x99)), tm(vec![0, 1, 3], MutOp::XorU128(0x99))]), "dvalue-two-macs-same-offset".into()));
                        for j in pick(&idx, thorough) {
                            for mm in [0usize, 3] {
                                entries.push((What::Tree(tm(vec![j, 0, mm], MutOp::FlipBit)), "dvalue-bit-mac-untouched".into()));
                                entries.push((What::Tree(tm(vec![j, 1, mm], MutOp::FlipBit)), "dvalue-mac".into()));
                            }
                        }
                    }
                    "faand" => {
                        if len >= 2 {
                            entries.push((What::TreeMulti(vec![tm(vec![0, 0], MutOp::FlipBit), tm(vec![len - 1, 0], MutOp::FlipBit)]), "beaver-two-d-bits".into()));
                            entries.push((What::TreeMulti(vec![tm(vec![0, 2], MutOp::XorU128(0x33)), tm(vec![len - 1, 2], MutOp::XorU128(0x33))]), "beaver-two-d-macs-same-offset".into()));
                            entries.push((What::Tree(tm(vec![], MutOp::SwapElems(0, len - 1))), "beaver-swap-two-openings".into()));
                        }
                        entries.push((What::TreeMulti(vec![tm(vec![0, 0], MutOp::FlipBit), tm(vec![0, 1], MutOp::FlipBit)]), "beaver-d-and-e-bit".into()));
                        // all-zero MACs (would pass a check that treats Mac(0) as "no MAC, nothing to verify")
                        for j in pick(&idx, thorough) {
                            entries.push((What::TreeMulti(vec![tm(vec![j, 0], MutOp::FlipBit), tm(vec![j, 2], MutOp::SetU128(0)), tm(vec![j, 3], MutOp::SetU128(0))]), "beaver-d-bit-with-zero-macs".into()));
                            entries.push((What::TreeMulti(vec![tm(vec![j, 1], MutOp::FlipBit), tm(vec![j, 2], MutOp::SetU128(0)), tm(vec![j, 3], MutOp::SetU128(0))]), "beaver-e-bit-with-zero-macs".into()));
                        }
                        for j in pick(&idx, thorough) {
                            for f in 0..4usize {
                                entries.push((What::Tree(tm(vec![j, f], MutOp::FlipBit)), format!("beaver-{}", ["d-bit", "e-bit", "d-mac", "e-mac"][f])));
                            }
                        }
                    }
                    "KOS_OT_x_t0_t1" => {
                        for f in 0..3usize {
                            entries.push((What::Tree(tm(vec![0, f], MutOp::FlipBit)), format!("kos-{}", ["x", "t0", "t1"][f])));
                        }
                    }
                    "ALSZ_OT_setup" => {
                        // >= 64 random columns altered in one row (missed with probability <= 2^-64)
                        let mut rng = ChaCha8Rng::seed_from_u64(s);
                        let mut cols: Vec<usize> = (0..len).collect();
                        cols.shuffle(&mut rng);
                        let inner = match &m.tree { Some(Val::Vec(v)) => match v.first() { Some(Val::Vec(b)) => b.len(), _ => 0 }, _ => 0 };
                        if inner > 0 {
                            let byte = rng.random_range(0..inner);
                            let bit = 1u8 << rng.random_range(0..8);
                            let ms: Vec<TreeMut> = cols.iter().take(80).map(|j| tm(vec![*j, byte], MutOp::XorU8(bit))).collect();
                            entries.push((What::TreeMulti(ms), "alsz-80-columns-one-row".into()));
                            // the same error in two rows (OT indices) at several distances: goes unnoticed
                            // only if the two check coefficients coincide
                            for (dname, dbyte, dbit) in [("1", 0usize, 1u32), ("8", 1, 0), ("64", 8, 0), ("128", 16, 0)] {
                                let b0 = byte % (inner - dbyte.min(inner - 1)).max(1);
                                let b1 = (b0 + dbyte).min(inner - 1);
                                let bit0 = if dbit > 0 { 1u8 } else { bit };
                                let bit1 = if dbit > 0 { 2u8 } else { bit };
                                if b0 == b1 && bit0 == bit1 {
                                    continue;
                                }
                                let mut ms2: Vec<TreeMut> = vec![];
                                for j in cols.iter().take(80) {
                                    ms2.push(tm(vec![*j, b0], MutOp::XorU8(bit0)));
                                    ms2.push(tm(vec![*j, b1], MutOp::XorU8(bit1)));
                                }
                                entries.push((What::TreeMulti(ms2), format!("alsz-80-columns-two-rows-distance-{dname}")));
                            }
                        }
                    }
                    "CO_OT_s" => {
                        let ms: Vec<TreeMut> = (0..len).map(|j| tm(vec![j], MutOp::SetU8(0xff))).collect();
                        entries.push((What::TreeMulti(ms), "invalid-ristretto-point".into()));
                    }
                    "CO_OT_r" => {
                        for j in pick(&idx, thorough) {
                            let ms: Vec<TreeMut> = (0..32).map(|b| tm(vec![j, b], MutOp::SetU8(0xff))).collect();
                            entries.push((What::TreeMulti(ms), "invalid-ristretto-point".into()));
                        }
                    }
                    "CO_OT_c0c1" => {
                        for j in pick(&idx, thorough) {
                            entries.push((What::TreeMulti(vec![tm(vec![j, 0], MutOp::FlipBit), tm(vec![j, 1], MutOp::FlipBit)]), "base-ot-both-ciphertexts".into()));
                        }
                    }
                    l if l.starts_with("broadcast ") => {
                        let somes = crate::props::c03::some_slots(m);
                        for j in somes {
                            entries.push((What::Tree(tm(vec![j, 0], MutOp::FlipBit)), "echo-hash-altered".into()));
                        }
                    }
                    _ => {}
                }
                for (what, class) in entries {
                    for (to, k) in &variants {
                        if to.is_none() && (m.label == "haand" || m.label.starts_with("broadcast ")) {
                            // flipping both receivers' h values cancels (a re-sharing of z, not cheating);
                            // echo messages differ per recipient
                            continue;
                        }
                        // 'persistent' only makes sense for labels whose later occurrences have the same shape
                        add(&m.label, *to, *k, what.clone(), class.clone(), s, None);
                    }
                }
                // n = 3 only: cm (never opened) changed for a single recipient must be caught by the echo
                if m.label == "fashare comm" && n == 3 && m.k == 0 {
                    add(&m.label, Some(m.to), Some(m.k), What::Tree(tm(vec![0, 2], MutOp::FlipBit)), "cm-equivocation".into(), s, None);
                }
                // wrong H with a matching commitment: only the XOR-to-zero check can catch it
                if m.label == "flaand comm" && first_receiver {
                    for ll in pick(&idx, thorough) {
                        let hprime: u128 = ChaCha8Rng::seed_from_u64(s ^ ll as u64).random();
                        let comm = blake3::hash(&hprime.to_be_bytes());
                        let to = if n == 3 { None } else { Some(m.to) };
                        let victims: Vec<usize> = match to { Some(t) => vec![t], None => honest.clone() };
                        for r in 0..reps {
                            let plan = FaultPlan {
                                corrupt: c,
                                actions: vec![
                                    FaultAction { target: Target { from: c, to, label: "flaand comm".into(), k: Some(m.k) }, what: What::Tree(tm(vec![ll], MutOp::SetBytes(comm.as_bytes().to_vec()))) },
                                    FaultAction { target: Target { from: c, to, label: "flaand hash".into(), k: Some(m.k) }, what: What::Tree(tm(vec![ll], MutOp::SetU128(hprime))) },
                                ],
                                crash: None,
                                seed: s ^ ((r as u64) << 56),
                            };
                            let mut fc = FaultCase::new(ci, plan, "laand-wrong-hash-with-matching-commitment".into(), "flaand comm".into());
                            fc.expect_abort = victims.clone();
                            fc.rep = r;
                            extra.push(fc);
                        }
                    }
                }
            }
            // consistent lies through taps
            let s = seed ^ 0x7a9 ^ ((ci as u64) << 40) ^ ((c as u64) << 32);
            for (site, ixs) in [("rng.multi.seed", vec![usize::MAX]), ("rng.pair.seed", vec![usize::MAX]), ("dvalue.own", vec![usize::MAX, 0, 9]), ("beaver.own_de", vec![usize::MAX, 0, 3])] {
                for ix in ixs {
                    let iname = if ix == usize::MAX { "all".to_string() } else { ix.to_string() };
                    add(&format!("tap:{site}"), None, None, What::Drop, format!("tap:{site}:{iname}"), s, Some((site.to_string(), ix)));
                }
            }
            // the same lies, and the last vector of the message that carries the lie (in every known format the
            // MACs that would expose it) is emptied or shortened - schema-free, so it still applies when the
            // layout of the message changes
            for (site, label) in [("dvalue.own", "dvalue"), ("beaver.own_de", "faand")] {
                for (bm, bname) in [(crate::adv::ByteMut::TailVecEmpty, "last-vector-emptied"), (crate::adv::ByteMut::TailVecMinus1, "last-vector-minus-1")] {
                    add(label, None, None, What::Bytes(bm), format!("tap:{site}:all+{bname}"), s, Some((site.to_string(), usize::MAX)));
                }
            }
            // rushing reflection: the corrupted party waits for the victim's commitment / opening and sends
            // a copy back (combined with an actual cheat where the check would otherwise be vacuous)
            for victim in &honest {
                let occ = |label: &str| -> Vec<usize> {
                    let mut ks: Vec<usize> = msgs.iter().filter(|m| m.label == label && m.to == *victim).map(|m| m.k).collect();
                    ks.sort();
                    ks.dedup();
                    if ks.len() > 2 && !thorough { vec![ks[0], ks[ks.len() - 1]] } else { ks }
                };
                let t = |label: &str, k: usize| Target { from: c, to: Some(*victim), label: label.to_string(), k: Some(k) };
                let mut combos: Vec<(String, Vec<FaultAction>)> = vec![];
                for k in occ("flaand comm") {
                    combos.push((format!("laand-e-bit-cheat-with-reflected-commitment-and-hash:batch{}", k.min(1)), vec![
                        FaultAction { target: t("flaand", k), what: What::Tree(tm(vec![0, 0], MutOp::FlipBit)) },
                        FaultAction { target: t("flaand comm", k), what: What::Reflect },
                        FaultAction { target: t("flaand hash", k), what: What::Reflect },
                    ]));
                    if n == 2 {
                        // the same, and the cheater's own view is patched the same way so that its
                        // (honest) code does not stop at the check either
                        let back = |label: &str| Target { from: *victim, to: Some(c), label: label.to_string(), k: Some(k) };
                        combos.push((format!("laand-e-bit-cheat-with-reflected-commitment-and-hash:cheater-continues:batch{}", k.min(1)), vec![
                            FaultAction { target: t("flaand", k), what: What::Tree(tm(vec![0, 0], MutOp::FlipBit)) },
                            FaultAction { target: t("flaand comm", k), what: What::Reflect },
                            FaultAction { target: t("flaand hash", k), what: What::Reflect },
                            FaultAction { target: back("flaand comm"), what: What::Reflect },
                            FaultAction { target: back("flaand hash"), what: What::Reflect },
                        ]));
                    }
                    combos.push((format!("laand-reflected-hash-only:batch{}", k.min(1)), vec![
                        FaultAction { target: t("flaand", k), what: What::Tree(tm(vec![0, 0], MutOp::FlipBit)) },
                        FaultAction { target: t("flaand hash", k), what: What::Reflect },
                    ]));
                }
                for k in occ("RNG comm") {
                    combos.push((format!("coin-toss-reflected-commitment-and-opening:toss{k}"), vec![
                        FaultAction { target: t("RNG comm", k), what: What::Reflect },
                        FaultAction { target: t("RNG ver", k), what: What::Reflect },
                    ]));
                    if k == 0 || n == 2 {
                        // mirrored both ways: the cheater's own (honest) code sees its own contribution as
                        // the victim's, so both sides would derive the same, cheater-known coins (seed ^ seed)
                        let back = |label: &str| Target { from: *victim, to: Some(c), label: label.to_string(), k: Some(k) };
                        combos.push((format!("coin-toss-reflected-commitment-and-opening:cheater-continues:toss{k}"), vec![
                            FaultAction { target: t("RNG comm", k), what: What::Reflect },
                            FaultAction { target: t("RNG ver", k), what: What::Reflect },
                            FaultAction { target: back("RNG comm"), what: What::Reflect },
                            FaultAction { target: back("RNG ver"), what: What::Reflect },
                        ]));
                    }
                }
                for k in occ("fashare comm") {
                    combos.push((format!("ashare-reflected-commitments-and-openings:batch{}", k.min(1)), vec![
                        FaultAction { target: t("fashare comm", k), what: What::Reflect },
                        FaultAction { target: t("fashare ver", k), what: What::Reflect },
                        FaultAction { target: t("fashare di_bi", k), what: What::Reflect },
                    ]));
                }
                for (class, actions) in combos {
                    for r in 0..reps {
                        let plan = FaultPlan { corrupt: c, actions: actions.clone(), crash: None, seed: s ^ ((r as u64) << 56) };
                        let mut fc = FaultCase::new(ci, plan, format!("rushing:{class}"), actions[0].target.label.clone());
                        fc.expect_abort = vec![*victim];
                        fc.rep = r;
                        extra.push(fc);
                    }
                }
            }
            // aBit consistency: the corrupted party uses choice bits towards ONE peer that differ from
            // the bits it claims, at one position and at structured pairs / sets of positions (equal
            // distance patterns would go unnoticed if the test combinations were not independent per
            // position); missed with probability 2^-120 by an honest check
            let lprime_min = 8 + 40 + 120; // smallest aBit batch of the fault configurations
            let sets: Vec<(&str, Vec<usize>)> = vec![
                ("one-position", vec![1]),
                ("pair-distance-1", vec![2, 3]),
                ("pair-distance-2", vec![4, 6]),
                ("pair-distance-8", vec![3, 11]),
                ("pair-distance-32", vec![7, 39]),
                ("pair-distance-64", vec![1, 65]),
                ("pair-distance-64-b", vec![63, 127]),
                ("pair-distance-127", vec![0, 127]),
                ("pair-across-chunks", vec![5, 133]),
                ("pair-in-remainder", vec![130, 150]),
                ("four-positions", vec![0, 64, 32, 96]),
            ];
            for victim in &honest {
                for (name, pos) in &sets {
                    if pos.iter().any(|p| *p >= lprime_min) {
                        continue;
                    }
                    for r in 0..reps {
                        let plan = FaultPlan { corrupt: c, actions: vec![], crash: None, seed: s ^ ((r as u64) << 56) ^ pos[0] as u64 };
                        let mut fc = FaultCase::new(ci, plan, format!("tap:abit-choice-bits-differ-towards-one-peer:{name}"), "tap:fabitn.x.peer".into());
                        fc.tap = Some(("fabitn.x.peer".into(), *victim));
                        fc.tap_positions = pos.clone();
                        fc.expect_abort = vec![*victim];
                        fc.rep = r;
                        extra.push(fc);
                    }
                }
            }
            cases.extend(extra);
        }
    }
    cases
}

pub fn build(tier: &str, seed: u64) -> World {
    let mut w = World::new(tier, seed);
    w.cases = catalogue(&w, tier, seed, if tier == "thorough" { 2 } else { 1 });
    w
}

pub fn child(tier: &str, seed: u64, a: shard::ShardArgs) {
    build(tier, seed).child(a);
}

// ------------------------------------------------------------------------------------------------
// (b) commit-before-reveal trace monitor
// ------------------------------------------------------------------------------------------------

pub const COMMIT_REVEAL: &[(&str, &str)] = &[("RNG comm", "RNG ver"), ("fashare comm", "fashare ver"), ("fashare comm", "fashare di_bi"), ("flaand comm", "flaand hash")];

/// Returns (rounds checked, first violation).
pub fn check_commit_before_reveal(net: &Net) -> (usize, Option<Value>) {
    let n = net.n;
    let mut rounds = 0;
    for (commit, reveal) in COMMIT_REVEAL {
        for p in 0..n {
            // per peer: times of the k-th RecvDone of `commit` from q, and k-th SendCall of `reveal` to q
            let mut recv_t: Vec<Vec<u64>> = vec![vec![]; n];
            let mut send_t: Vec<Vec<u64>> = vec![vec![]; n];
            for e in &net.log {
                if e.party != p || e.label == u16::MAX {
                    continue;
                }
                let l = net.label(e.label);
                if e.kind == EvKind::RecvDone && l == *commit {
                    recv_t[e.peer].push(e.t);
                } else if e.kind == EvKind::SendCall && l == *reveal {
                    send_t[e.peer].push(e.t);
                }
            }
            let rounds_p = (0..n).filter(|q| *q != p).map(|q| send_t[q].len()).max().unwrap_or(0);
            for k in 0..rounds_p {
                let first_reveal = (0..n).filter(|q| *q != p).filter_map(|q| send_t[q].get(k)).min().copied();
                let Some(first_reveal) = first_reveal else { continue };
                rounds += 1;
                for q in (0..n).filter(|q| *q != p) {
                    match recv_t[q].get(k) {
                        Some(t) if *t < first_reveal => {}
                        other => {
                            return (rounds, Some(json!({
                                "party": p, "commit_label": commit, "reveal_label": reveal, "round": k,
                                "first_reveal_send_call_t": first_reveal,
                                "commitment_from": q, "commitment_received_t": other,
                            })));
                        }
                    }
                }
            }
        }
    }
    (rounds, None)
}

// ------------------------------------------------------------------------------------------------
// (c) predictor: challenges recomputed from the coin-toss openings seen on the wire
// ------------------------------------------------------------------------------------------------

#[derive(Default)]
pub struct PredictorOut {
    /// (challenge name, detail)
    pub predictable: Vec<(String, Value)>,
    pub reused: Vec<(String, Value)>,
    pub probes_seen: usize,
    pub openings_seen: usize,
}

fn xor32(a: &mut [u8; 32], b: &[u8]) {
    for (x, y) in a.iter_mut().zip(b) {
        *x ^= *y;
    }
}

/// id of the last message with `label` (optionally between a pair of parties) sent before
/// `before` messages had been sent: the data under check.
fn last_msg_before(net: &Net, before: usize, label: &str, pair: Option<(usize, usize)>) -> Option<usize> {
    net.msgs[..before.min(net.msgs.len())]
        .iter()
        .rev()
        .find(|m| net.label(m.label) == label && pair.map(|(a, b)| (m.from == a && m.to == b) || (m.from == b && m.to == a)).unwrap_or(true))
        .map(|m| m.id)
}

pub fn predictor(net: &Net, probes: &[crate::hooks::ProbeRec]) -> PredictorOut {
    use rand::RngCore;
    let n = net.n;
    let mut out = PredictorOut::default();
    // openings on the wire: 'RNG ver' k=0 is the pairwise toss, k=1 the multi-party toss
    let mut pair_open: Vec<Vec<Option<(Vec<u8>, usize)>>> = vec![vec![None; n]; n];
    let mut multi_open: Vec<Option<(Vec<u8>, usize)>> = vec![None; n];
    for m in &net.msgs {
        if net.label(m.label) != "RNG ver" {
            continue;
        }
        let Some(w) = &m.wire else { continue };
        if w.len() != 40 {
            continue;
        }
        out.openings_seen += 1;
        let seed = w[8..].to_vec();
        if m.k == 0 {
            pair_open[m.from][m.to] = Some((seed, m.id));
        } else if m.k == 1 && multi_open[m.from].is_none() {
            multi_open[m.from] = Some((seed, m.id));
        }
    }
    // pairwise streams
    let mut pair_chi0: Vec<Vec<Option<([u8; 16], usize)>>> = vec![vec![None; n]; n];
    for a in 0..n {
        for b in (a + 1)..n {
            if let (Some((sa, ia)), Some((sb, ib))) = (&pair_open[a][b], &pair_open[b][a]) {
                let mut seed = [0u8; 32];
                xor32(&mut seed, sa);
                xor32(&mut seed, sb);
                let mut rng = ChaCha20Rng::from_seed(seed);
                let mut chi = [0u8; 16];
                rng.fill_bytes(&mut chi);
                pair_chi0[a][b] = Some((chi, (*ia).max(*ib)));
                pair_chi0[b][a] = pair_chi0[a][b];
            }
        }
    }
    let multi_seed: Option<([u8; 32], usize)> = if multi_open.iter().all(|o| o.is_some()) {
        let mut seed = [0u8; 32];
        let mut last = 0;
        for o in multi_open.iter().flatten() {
            xor32(&mut seed, &o.0);
            last = last.max(o.1);
        }
        Some((seed, last))
    } else {
        None
    };
    // KOS chi0: predictable? reused?
    let mut seen_chi: std::collections::HashMap<(usize, usize, &'static str, Vec<u8>), usize> = Default::default();
    for p in probes {
        out.probes_seen += 1;
        let Some(party) = p.party else { continue };
        match p.site {
            "kos.chi0.send" | "kos.chi0.recv" => {
                let peer = p.index;
                if let Some((chi, opened_at)) = pair_chi0.get(party).and_then(|r| r.get(peer)).copied().flatten() {
                    // the opening was on the wire before this session's data existed
                    let data = last_msg_before(net, p.msgs_before, "ALSZ_OT_setup", Some((party, peer)));
                    if chi[..] == p.value[..] && data.map(|d| opened_at < d).unwrap_or(false) {
                        out.predictable.push(("kos.chi0".into(), json!({"party": party, "peer": peer, "site": p.site, "openings_complete_at_msg": opened_at, "challenge_first_used_after_msg": p.msgs_before})));
                    }
                }
                let key = (party, peer, p.site, p.value.clone());
                let c = seen_chi.entry(key).or_insert(0);
                *c += 1;
                if *c == 2 {
                    out.reused.push(("kos.chi0".into(), json!({"party": party, "peer": peer, "site": p.site})));
                }
            }
            "fabitn.rseed" => {
                if let Some((seed, opened_at)) = multi_seed {
                    // the observer does not model how many words were drawn before: scan offsets
                    let mut rng = ChaCha20Rng::from_seed(seed);
                    for off in 0..4096u128 {
                        rng.set_word_pos(off);
                        let mut b = [0u8; 16];
                        rng.fill_bytes(&mut b);
                        let data = last_msg_before(net, p.msgs_before, "KOS_OT_corr", None);
                        if b[..] == p.value[..] && data.map(|d| opened_at < d).unwrap_or(false) {
                            out.predictable.push(("fabitn.rseed".into(), json!({"party": party, "stream_word_offset": off as u64, "openings_complete_at_msg": opened_at, "challenge_first_used_after_msg": p.msgs_before})));
                            break;
                        }
                    }
                }
            }
            "faand.perm" => {
                if let Some((seed, opened_at)) = multi_seed {
                    let perm: Vec<u32> = p.value.chunks(4).map(|c| u32::from_le_bytes(c.try_into().unwrap())).collect();
                    let mut rng = ChaCha20Rng::from_seed(seed);
                    for off in 0..4096u128 {
                        rng.set_word_pos(off);
                        let mut idx: Vec<usize> = (0..perm.len()).collect();
                        idx.shuffle(&mut rng);
                        let data = last_msg_before(net, p.msgs_before, "flaand", None);
                        if idx.iter().zip(&perm).all(|(a, b)| *a as u32 == *b) && perm.len() >= 5 && data.map(|d| opened_at < d).unwrap_or(false) {
                            out.predictable.push(("faand.perm".into(), json!({"party": party, "stream_word_offset": off as u64, "len": perm.len(), "openings_complete_at_msg": opened_at, "challenge_first_used_after_msg": p.msgs_before})));
                            break;
                        }
                    }
                }
            }
            _ => {}
        }
    }
    out
}

// ------------------------------------------------------------------------------------------------
// (d) soundness probes of the aBit test through the preprocessing wrappers
// ------------------------------------------------------------------------------------------------

pub struct ProbeOut {
    pub key: String,
    pub end: RunEnd,
    pub sig: Option<String>,
    pub sample: Value,
    pub tap_fired: usize,
}

/// The corrupted party uses, towards one peer, choice bits that differ from the bits it claims at a
/// structured set of live positions; `fashare` of that peer must fail (missed w.p. 2^-120).
pub fn abit_probe(i: usize, seed: u64) -> ProbeOut {
    use crate::hooks::pv::Pre;
    use crate::sim::{self, PartyFut, SimCfg, SimChan};
    let patterns: Vec<(&str, Vec<usize>)> = vec![
        ("one-position", vec![3]),
        ("pair-distance-1", vec![10, 11]),
        ("pair-distance-2", vec![20, 22]),
        ("pair-distance-4", vec![40, 44]),
        ("pair-distance-8", vec![3, 11]),
        ("pair-distance-16", vec![5, 21]),
        ("pair-distance-32", vec![7, 39]),
        ("pair-distance-64", vec![1, 65]),
        ("pair-distance-64-second-chunk", vec![130, 194]),
        ("pair-distance-128", vec![2, 130]),
        ("pair-same-offset-in-both-chunks", vec![77, 205]),
        ("four-positions", vec![0, 64, 32, 96]),
        ("pair-first-last-live", vec![0, 255]),
    ];
    let mut patterns: Vec<(String, Vec<usize>)> = patterns.into_iter().map(|(a, b)| (a.to_string(), b)).collect();
    for (a, b) in [(62usize, 63usize), (63, 64), (64, 65), (126, 127), (127, 128), (128, 129), (190, 191), (191, 192), (192, 193), (254, 255)] {
        patterns.push((format!("pair-{a}-{b}"), vec![a, b]));
    }
    // every single live position (a coefficient that is constant at some position would go unnoticed)
    for p in 0..256usize {
        patterns.push((format!("single-position-class-{}", if p % 64 == 0 { "0mod64" } else if p % 64 == 63 { "63mod64" } else { "other" }), vec![p]));
    }
    let (name, pos) = &patterns[i % patterns.len()];
    let n = 2 + (i / patterns.len()) % 2;
    let c = (i / (2 * patterns.len())) % n;
    let victim = (c + 1 + (i / (2 * patterns.len() * 3)) % (n - 1)) % n;
    let l = 256usize; // live shares 0..256; aShare check shares 256..296; discarded 296..416
    let mut rng = ChaCha8Rng::seed_from_u64(seed ^ 0xab17 ^ i as u64);
    let deltas: Vec<u128> = (0..n).map(|_| rng.random()).collect();
    let fired = std::rc::Rc::new(std::cell::Cell::new(0usize));
    {
        let f = fired.clone();
        let pos = pos.clone();
        crate::hooks::install_tap(Some(Box::new(move |site, party, idx, value| {
            if site == "fabitn.x.peer" && party == Some(c) && idx == victim {
                for p in &pos {
                    if let Some(b) = value.get_mut(*p) {
                        *b ^= 1;
                    }
                }
                f.set(f.get() + 1);
            }
        })));
    }
    let (net, chans) = SimChan::new_set(n, None);
    let res = {
        let mut futs: Vec<PartyFut<'_, Result<usize, String>>> = vec![];
        for p in 0..n {
            let ch = &chans[p];
            let delta = deltas[p];
            futs.push(Box::pin(async move {
                let mut pre = Pre::setup(ch, p, n, delta).await?;
                let s = pre.fashare(ch, l).await?;
                Ok(s.len())
            }));
        }
        sim::run(&net, futs, &SimCfg::default())
    };
    crate::hooks::install_tap(None);
    let mut sig = None;
    let vo = match &res.outcomes[victim] {
        Outcome::Done(Ok(_)) => "Ok".to_string(),
        Outcome::Done(Err(e)) => format!("Err:{}", crate::props::err_class(e)),
        Outcome::Panic(_, l) => format!("Panic@{l}"),
        _ => "Unfinished".into(),
    };
    if vo == "Ok" {
        sig = Some(format!("aBit test accepted choice bits that differ from the claimed bits ({name})"));
    } else if !vo.starts_with("Err") && res.end != RunEnd::StepLimit {
        sig = Some(format!("aBit probe: victim did not return Err ({}) ({name})", vo.split('@').next().unwrap_or(&vo)));
    }
    let sample = json!({"probe": "aBit choice bits towards one peer differ from the claimed bits", "pattern": name, "positions": pos, "n": n, "corrupt": c, "victim": victim, "live_shares": l, "victim_result": vo, "tap_fired": fired.get()});
    ProbeOut { key: format!("abit-probe|n={n}|c={c}|v={victim}|{name}"), end: res.end, sig, sample, tap_fired: fired.get() }
}

pub struct HonestOut {
    pub ok: bool,
    pub end: RunEnd,
    pub rounds: usize,
    pub cbr_violation: Option<Value>,
    pub pred: PredictorOut,
    pub key: String,
    pub sched_hash: u64,
    pub ilv_hash: u64,
    pub sample: Value,
}

pub fn honest_run(i: usize, seed: u64) -> HonestOut {
    let mut rng = ChaCha8Rng::seed_from_u64(seed ^ (i as u64).wrapping_mul(0x9e3779b97f4a7c15));
    let n = 2 + (i % 2) + if i % 11 == 10 { 1 } else { 0 };
    let ands = [1usize, 2, 3, 5][i % 4];
    let cfg = circ::random_gen_cfg(&mut rng, n, ands);
    let c = circ::gen_circuit(&mut rng, &cfg);
    let inputs = circ::random_inputs(&mut rng, &c);
    let p_eval = rng.random_range(0..n);
    let a = rng.random_range(0..n);
    let mut b = rng.random_range(0..n);
    if b == a { b = (a + 1) % n; }
    let sched = match i % 7 {
        0 => SchedKind::StarveLink(a, b),
        1 => SchedKind::StarveLink(b, a),
        2 => SchedKind::StarveParty(a),
        3 => SchedKind::Random,
        4 => SchedKind::Pct(3),
        5 => SchedKind::LazyDeliver,
        _ => SchedKind::EagerRandom,
    };
    let cap = [None, Some(1), Some(2)][i % 3];
    let expected = circ::eval_clear(&c, &inputs);
    let mut case = Case::new(c.clone(), inputs.clone(), p_eval, (0..n).collect());
    case.cap = cap;
    case.record_probes = true;
    case = case.with_sched(sched.clone(), rng.random());
    let ex = exec_mpc(case);
    let ok = ex.end == RunEnd::AllFinished && ex.outcomes.iter().all(|o| matches!(o, Outcome::Done(Ok(v)) if *v == expected));
    let (rounds, cbr) = check_commit_before_reveal(&ex.net);
    let pred = predictor(&ex.net, &ex.probes);
    let key = format!("n={n} sched={:?} cap={:?}", sched, cap);
    let sample = json!({"n": n, "sched": format!("{sched:?}"), "capacity": cap, "circuit": circ::circ_summary(&c), "commit_reveal_rounds_checked": rounds, "probes": ex.probes.len(), "messages": ex.net.msgs.len(), "events": ex.net.log.len()});
    HonestOut { ok, end: ex.end, rounds, cbr_violation: cbr, pred, key, sched_hash: ex.sched_hash, ilv_hash: ex.ilv_hash, sample }
}

pub fn run(tier: &str, seed: u64) -> i32 {
    let mut rep = Report::new("C04", tier, seed, "fault_enumeration");
    rep.rule = "(a) cheating catalogue: for every verification step of coin tossing, aBit, aShare, HaAND/LaAND, bucket combination, Beaver derandomisation, KOS/ALSZ/base OT and every verified broadcast, the corrupted party sends a value that does not match (on the wire: single recipient, all recipients, persistent) or lies consistently through a tap; index inside the checked vectors first/mid/last (quick) or all (thorough). Oracle: every honest receiver returns Err and sends no online-phase message after receiving the bad value. (b) commit-before-reveal checked on the event log of honest runs under starving / random / PCT schedulers and capacities 1, 2, unbounded. (d) soundness probes through the preprocessing wrappers: the corrupted party's aBit choice bits towards one peer differ from the bits it claims at one position and at pairs / sets of positions at distances 1..128 (would be accepted if test coefficients repeated with that period); that peer's fashare must fail. (c) predictor: challenge recomputed from the coin-toss openings on the wire, alarm on exact match with the probe of the challenge used. distinct = (configuration, corrupted party, label, cheating class, variant) for (a), (n, scheduler, capacity) for (b); non-trivial = the bad value was delivered / at least one commit-reveal round was observed".into();
    rep.assumptions = vec![
        "expectations with inherent failure probability above 2^-64 (single ALSZ column, single correlated-OT correction, leaky-AND u value, the never-opened commitment cm for all recipients) are not in the must-abort catalogue; they are judged by C02".into(),
        "commit / reveal messages are paired by the engine's own phase labels and occurrence index".into(),
        "predictor uses rand / rand_chacha from the same lock file as the engine".into(),
    ];
    // (b) + (c) on honest runs
    let n_honest = if tier == "thorough" { 1200 } else { 96 };
    let outs = parallel_for(n_honest, threads(), |i| honest_run(i, seed));
    let mut rounds = 0u64;
    let mut ilv = std::collections::BTreeSet::new();
    let mut probes_seen = 0u64;
    let mut openings = 0u64;
    for o in outs {
        rep.evaluations += 1;
        match &o.end {
            RunEnd::HarnessError(e) => { rep.harness_error(e.clone()); continue; }
            RunEnd::StepLimit => { rep.inconclusive("step limit"); continue; }
            _ => {}
        }
        if !o.ok {
            rep.harness_error(format!("honest run under {} did not succeed ({:?}) - judged by C12", o.key, o.end));
            continue;
        }
        rounds += o.rounds as u64;
        ilv.insert(o.ilv_hash);
        probes_seen += o.pred.probes_seen as u64;
        openings += o.pred.openings_seen as u64;
        if o.rounds > 0 {
            rep.distinct.insert(format!("cbr|{}", o.key));
        }
        if let Some(v) = o.cbr_violation {
            let sig = format!("reveal '{}' sent before all '{}' commitments were received", v["reveal_label"].as_str().unwrap_or("?"), v["commit_label"].as_str().unwrap_or("?"));
            rep.violation(sig, json!({"run": o.sample, "witness": v}));
        }
        for (name, d) in o.pred.predictable {
            rep.violation(format!("predictable challenge={name} (computable from the coin-toss openings before the data under check is sent)"), json!({"run": o.sample, "witness": d}));
        }
        for (name, d) in o.pred.reused {
            rep.violation(format!("reused challenge={name} across checks of one execution"), json!({"run": o.sample, "witness": d}));
        }
        if rep.samples.len() < 2 {
            rep.sample(o.sample);
        }
    }
    rep.set("commit_reveal_rounds_checked", json!(rounds));
    rep.set("distinct_interleavings_honest", json!(ilv.len()));
    rep.set("challenge_probes_observed", json!(probes_seen));
    rep.set("coin_toss_openings_observed", json!(openings));
    if crate::hooks::HOOKS_ON && probes_seen == 0 {
        rep.harness_error("no challenge probe fired");
    }
    if rounds == 0 {
        rep.harness_error("no commit/reveal round observed");
    }
    // (d) soundness probes of the aBit test
    let n_probe = if tier == "thorough" { 279 * 2 * 3 * 2 } else { 279 * 2 };
    let probes = parallel_for(n_probe, threads(), |i| abit_probe(i, seed));
    let mut probe_hits = 0u64;
    for o in probes {
        rep.evaluations += 1;
        match &o.end {
            RunEnd::HarnessError(e) => { rep.harness_error(e.clone()); continue; }
            RunEnd::StepLimit => { rep.inconclusive("step limit"); continue; }
            _ => {}
        }
        if crate::hooks::HOOKS_ON && o.tap_fired == 0 {
            rep.harness_error(format!("aBit probe tap never fired: {}", o.key));
            continue;
        }
        probe_hits += 1;
        rep.distinct.insert(o.key.clone());
        match o.sig {
            Some(s) => rep.violation(s, o.sample),
            None => { if probe_hits % 29 == 1 { rep.sample(o.sample) } }
        }
    }
    rep.set("abit_soundness_probes", json!(probe_hits));
    // (a) catalogue
    let w = build(tier, seed);
    let mut hist = std::collections::BTreeMap::new();
    let mut cnt = 0u64;
    w.drive("C04", tier, seed, &mut rep, |rep, fc, cfg, v| {
        let via = format!("label={} mut={}", fc.label, fc.class);
        if !faults::effective(fc, v) {
            rep.harness_error(format!("cheating value never delivered: {via} in {} c={}", cfg.name, fc.plan.corrupt));
            return;
        }
        let mut bad = false;
        let received: Vec<u64> = v["victims"].as_array().map(|a| a.iter().filter_map(|x| x["party"].as_u64()).collect()).unwrap_or_default();
        for h in &fc.expect_abort {
            if fc.tap.is_none() && !received.contains(&(*h as u64)) {
                continue;
            }
            let oc = v["outcomes"][*h].as_str().unwrap_or("?");
            let raw = v["outcomes_raw"][*h].as_str().unwrap_or("");
            let peer_left = raw.contains("RecvError(\"Closed\")") || raw.contains("SendError(\"Closed\")");
            *hist.entry(if peer_left { "Err:(peer terminated first)".to_string() } else { oc.to_string() }).or_insert(0u64) += 1;
            rep.distinct.insert(format!("{}|c{}|v{}|{}|{}", cfg.name, fc.plan.corrupt, h, fc.label, fc.class));
            if oc == "Ok" {
                rep.violation(format!("honest party accepted preprocessing cheating via {via}"), v.clone());
                bad = true;
            } else if !oc.starts_with("Err") {
                rep.violation(format!("honest party did not return Err ({}) via {via}", oc.split('@').next().unwrap_or(oc)), v.clone());
                bad = true;
            }
        }
        // consistent lies (taps) do not show up as an altered message: the honest receiver of the lie
        // must stop during preprocessing, i.e. never send an online-phase message at all
        if fc.tap.is_some() {
            for h in &fc.expect_abort {
                if v["sent_online"][*h].as_bool().unwrap_or(false) {
                    rep.violation(format!("honest party proceeded to the online phase on unverified preprocessing data via {via}"), v.clone());
                    bad = true;
                }
            }
        }
        if let Some(vs) = v["victims"].as_array() {
            for vi in vs {
                if vi["preprocessing_msg"].as_bool().unwrap_or(false) && vi["proceeded_to_online"].as_bool().unwrap_or(false) {
                    rep.violation(format!("honest party proceeded to the online phase on unverified preprocessing data via {via}"), v.clone());
                    bad = true;
                }
            }
        }
        cnt += 1;
        if !bad && cnt % 101 == 1 {
            rep.sample(v.clone());
        }
    });
    rep.set("victim_outcome_histogram", json!(hist));
    rep.finish()
}
