//! C08 - hostile or vanishing peers cause an error return, never a panic or a hang.
use serde_json::{Value, json};

use crate::adv::{self, ByteMut, CrashAt, FaultAction, FaultPlan, Target, What};
use crate::codec::{self, Density, MutOp};
use crate::faults::{self, Config, FaultCase, Pilot};
use crate::report::Report;
use crate::shard::{self, CaseResult};
use crate::sim::DeadSend;

pub struct World {
    pub cfgs: Vec<Config>,
    pub pilots: Vec<Pilot>,
    pub cases: Vec<FaultCase>,
}

fn structural(op: &MutOp) -> bool {
    matches!(op, MutOp::PopLast | MutOp::PopFirst | MutOp::DupLast | MutOp::Empty | MutOp::Halve | MutOp::SomeToNone | MutOp::NoneToSome | MutOp::BoolTwo)
}

pub fn build(tier: &str, seed: u64) -> World {
    let thorough = tier == "thorough";
    let cfgs = faults::fault_configs(tier, seed);
    let pilots: Vec<Pilot> = cfgs.iter().map(faults::pilot).collect();
    let mut cases = vec![];
    for (ci, cfg) in cfgs.iter().enumerate() {
        let n = cfg.n();
        // quick: all n=2 configurations, one n=3 configuration completely, the rest of n=3 sparsely
        let dense = n == 2 || thorough;
        let stride = if cfg.name == "n3-E1-Oall" { 2 } else { 6 };
        for c in 0..n {
            let msgs: Vec<_> = pilots[ci].msgs.iter().filter(|m| m.from == c).collect();
            for (mi, m) in msgs.iter().enumerate() {
                if !dense && mi % stride != (c + ci + seed as usize) % stride {
                    continue;
                }
                let target = Target { from: c, to: Some(m.to), label: m.label.clone(), k: Some(m.k) };
                let seed_case = seed ^ ((ci as u64) << 40) ^ ((c as u64) << 32) ^ (mi as u64) << 8;
                for bm in adv::byte_mut_classes() {
                    if matches!(bm, ByteMut::FlipRandomBit) && !thorough {
                        continue;
                    }
                    let plan = FaultPlan { corrupt: c, actions: vec![FaultAction { target: target.clone(), what: What::Bytes(bm.clone()) }], crash: None, seed: seed_case };
                    cases.push(FaultCase::new(ci, plan, format!("bytes:{bm:?}"), m.label.clone()));
                }
                if let Some(tree) = &m.tree {
                    let muts = codec::enumerate(tree, if thorough { Density::Full } else { Density::Sampled });
                    let mut seen = std::collections::BTreeSet::new();
                    for tm in muts {
                        if !structural(&tm.op) {
                            continue;
                        }
                        // one representative per (op, depth, position class of the last index)
                        let pos = tm.path.last().map(|i| if *i == 0 { "first" } else { "later" }).unwrap_or("root");
                        let key = format!("{}:{}", tm.describe(), pos);
                        if !thorough && !seen.insert(key) {
                            continue;
                        }
                        let class = format!("tree:{}", tm.describe());
                        let plan = FaultPlan { corrupt: c, actions: vec![FaultAction { target: target.clone(), what: What::Tree(tm) }], crash: None, seed: seed_case };
                        cases.push(FaultCase::new(ci, plan, class, m.label.clone()));
                    }
                }
                // sibling-independent inner mutations for the labels with paired inner vectors
                if m.label == "dvalue" {
                    for (which, op) in [(0usize, MutOp::Empty), (1, MutOp::Empty), (0, MutOp::PopLast), (1, MutOp::PopLast), (0, MutOp::DupLast), (1, MutOp::DupLast)] {
                        let tm = codec::TreeMut { path: vec![0, which], op: op.clone() };
                        let plan = FaultPlan { corrupt: c, actions: vec![FaultAction { target: target.clone(), what: What::Tree(tm) }], crash: None, seed: seed_case };
                        cases.push(FaultCase::new(ci, plan, format!("tree:inner{which}:{op:?}"), m.label.clone()));
                    }
                }
                // the peer disappears after this message (both send-to-dead semantics)
                if dense || mi % 3 == 0 {
                    for ds in [DeadSend::Err, DeadSend::Drop] {
                        let plan = FaultPlan { corrupt: c, actions: vec![], crash: Some(CrashAt { party: c, after_idx: m.idx_from }), seed: seed_case };
                        let mut fc = FaultCase::new(ci, plan, format!("crash-after-msg:{ds:?}"), m.label.clone());
                        fc.dead_send = ds;
                        cases.push(fc);
                    }
                }
            }
            // the peer never sends anything
            let plan = FaultPlan { corrupt: c, actions: vec![], crash: None, seed };
            let mut fc = FaultCase::new(ci, plan, "silent-from-start".into(), "-".into());
            fc.plan.actions.push(FaultAction { target: Target { from: c, to: None, label: "RNG comm".into(), k: Some(0) }, what: What::CrashAfter });
            cases.push(fc);
        }
    }
    World { cfgs, pilots, cases }
}

pub fn run_case(w: &World, idx: usize) -> Value {
    let fc = &w.cases[idx];
    let cfg = &w.cfgs[fc.cfg_ix];
    let run = faults::exec_fault(cfg, fc, false);
    faults::observe(cfg, fc, &run, &w.pilots[fc.cfg_ix].baseline_alloc)
}

pub fn child(tier: &str, seed: u64, a: shard::ShardArgs) {
    crate::sim::set_quiet_panics(true);
    let w = build(tier, seed);
    shard::child_loop(w.cases.len(), a.shard, a.of, a.from, |i| run_case(&w, i));
}

pub fn run(tier: &str, seed: u64) -> i32 {
    let mut rep = Report::new("C08", tier, seed, "fault_enumeration");
    rep.rule = "one corrupted party; for every message it sends (per configuration, receiver and occurrence): byte-level classes, structure-aware tree mutations (element count +-1 / emptied / halved at each nesting level, Some<->None, bool byte 2) and a crash after the message with both send-to-dead semantics. distinct = (configuration, corrupted party, label, mutation class); non-trivial = the mutation changed the bytes on the wire or the crash point was reached".into();
    rep.assumptions = vec![
        "peer termination closes its endpoints: receive from a terminated peer fails after queued messages are drained".into(),
        "allocation bound: a single request attributed to an honest party must stay below max(8 MiB, 64 x bytes received) + honest baseline".into(),
    ];
    let w = build(tier, seed);
    for (p, cfg) in w.pilots.iter().zip(&w.cfgs) {
        if !p.ok {
            rep.harness_error(format!("pilot run of {} is not an honest success", cfg.name));
        }
        for e in &p.schema_errors {
            rep.harness_error(format!("schema table out of date: {e}"));
        }
    }
    let results = shard::run_parent("C08", tier, seed, w.cases.len(), crate::runner::threads(), &[]);
    let mut by_label = std::collections::BTreeMap::new();
    let mut outcome_hist = std::collections::BTreeMap::new();
    for (fc, r) in w.cases.iter().zip(results) {
        rep.evaluations += 1;
        let cfg = &w.cfgs[fc.cfg_ix];
        let via = format!("label={} mut={}", fc.label, fc.class);
        match r {
            CaseResult::Aborted(desc, stderr) => {
                if stderr.contains("memory allocation of") || stderr.contains("capacity overflow") {
                    rep.violation(format!("process abort (allocation failure) via {via}"), json!({"cfg": cfg.name, "corrupt": fc.plan.corrupt, "class": fc.class, "label": fc.label, "abort": desc, "stderr": stderr}));
                } else {
                    rep.harness_error(format!("shard died ({desc}) in case {via}: {stderr}"));
                }
            }
            CaseResult::Done(v) => {
                let end = v["end"].as_str().unwrap_or("");
                if end.starts_with("HarnessError") {
                    rep.harness_error(format!("{end} in {via}"));
                    continue;
                }
                if end == "StepLimit" {
                    rep.inconclusive("step limit");
                    continue;
                }
                let effective = v["applied"].as_u64().unwrap_or(0) > 0 || fc.class.starts_with("crash") || fc.class.starts_with("silent");
                if effective {
                    rep.distinct.insert(format!("{}|c{}|{}|{}", cfg.name, fc.plan.corrupt, fc.label, fc.class));
                }
                *by_label.entry(fc.label.clone()).or_insert(0u64) += 1;
                let honest: Vec<usize> = v["honest"].as_array().map(|a| a.iter().filter_map(|x| x.as_u64()).map(|x| x as usize).collect()).unwrap_or_default();
                let mut bad = false;
                for h in honest {
                    let oc = v["outcomes"][h].as_str().unwrap_or("?").to_string();
                    *outcome_hist.entry(oc.split(':').next().unwrap_or("?").split('@').next().unwrap_or("?").to_string()).or_insert(0u64) += 1;
                    if oc.starts_with("Panic@") {
                        rep.violation(format!("{} via {via}", oc.replace("Panic@", "panic@")), v.clone());
                        bad = true;
                    } else if oc == "Unfinished" {
                        rep.violation(format!("hang (no runnable task, peers terminated) via {via}"), v.clone());
                        bad = true;
                    }
                    let req = v["max_alloc_req"][h].as_u64().unwrap_or(0);
                    let bound = v["alloc_bound"][h].as_u64().unwrap_or(u64::MAX);
                    if req > bound {
                        rep.violation(format!("allocation out of proportion via {via}"), v.clone());
                        bad = true;
                    }
                }
                if !bad && rep.samples.len() < 6 && effective && rep.evaluations % 97 == 1 {
                    rep.sample(v);
                }
            }
        }
    }
    rep.set("cases_per_label", json!(by_label));
    rep.set("honest_outcome_histogram", json!(outcome_hist));
    rep.set("configurations", json!(w.cfgs.iter().map(|c| c.name.clone()).collect::<Vec<_>>()));
    rep.finish()
}
